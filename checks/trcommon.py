"""libcnb-test harness: run one scenario through the real TestRunner (testrunner-mc) against the
stand-in docker/pack CLIs, and decode the logged argv with reference parsers written from the
CLIs' documented grammars (pflag: a non-boolean long option consumes the next argv element as its
value whatever it looks like; `docker run`/`docker exec` stop option parsing at the first
positional; --env and --mount fields split at the first '=')."""
import json
import os
import shutil
import subprocess

from common import TARGET

RUNNER = os.path.join(TARGET, "testrunner-mc")
FAKECLI = os.path.join(TARGET, "fakecli")

# "<name>#exec" entries are not files: they say that <name> is executable (as the stand-in pack lists it)
FIXTURE_FILES = {"file.txt": "original", "sub/nested.txt": "n", "bin/start.sh": "#!/bin/sh\nexec app\n", "bin/start.sh#exec": "yes"}


def make_world(root):
    shutil.rmtree(root, ignore_errors=True)
    os.makedirs(os.path.join(root, "bin"))
    for n in ("docker", "pack"):
        os.symlink(FAKECLI, os.path.join(root, "bin", n))
    os.makedirs(os.path.join(root, "tmp"))
    for rel, data in FIXTURE_FILES.items():
        if rel.endswith("#exec"):
            continue
        p = os.path.join(root, "crate", "fixture", rel)
        os.makedirs(os.path.dirname(p), exist_ok=True)
        open(p, "w").write(data)
        if rel + "#exec" in FIXTURE_FILES:
            os.chmod(p, 0o755)
    # a directory below the crate root that is spelled like the default buildpack reference: a
    # reference is an opaque string for pack (id, URI, path relative to *pack's* cwd), never to be
    # reinterpreted because something with that name exists next to the test crate
    os.makedirs(os.path.join(root, "crate", "some", "bp"))
    open(os.path.join(root, "crate", "some", "bp", "buildpack.toml"), "w").write("")
    return root


def fixture_state(root, manifest_dir=None):
    out = {}
    base = os.path.join(manifest_dir or os.path.join(root, "crate"), "fixture")
    for dp, dn, fn in os.walk(base):
        for f in fn:
            p = os.path.join(dp, f)
            out[os.path.relpath(p, base)] = open(p).read()
            if os.stat(p).st_mode & 0o100:
                out[os.path.relpath(p, base) + "#exec"] = "yes"
    return out


def run_scenario(root, scenario, fail=(), workspace=None, manifest_rel=None, layout=None, post=None, host_env=None):
    """fail: invocation ordinals that exit 1; an entry "k!" is a *hard* failure of `docker run` k
    (rejected at create time: the container never exists, later logs/exec/port on it fail too).
    -> dict(outcome, message, log=[{n,prog,argv}], tmp_left=[...], fixture_same, path_dirs={path: listing})"""
    make_world(root)
    if layout:
        layout(root)
    manifest_dir = os.path.join(root, "crate")
    extra_path = ""
    extra_env = {}
    if workspace:
        # a real (generated, pre-built) Cargo workspace: buildpack references are packaged by the
        # real libcnb-package code with the real cargo; docker/pack stay stand-ins
        subprocess.run(["cp", "-a", workspace, os.path.join(root, "ws")], check=True)
        manifest_dir = os.path.join(root, "ws", manifest_rel)
        for rel, data in FIXTURE_FILES.items():
            if rel.endswith("#exec"):
                continue
            p = os.path.join(manifest_dir, "fixture", rel)
            os.makedirs(os.path.dirname(p), exist_ok=True)
            open(p, "w").write(data)
            if rel + "#exec" in FIXTURE_FILES:
                os.chmod(p, 0o755)
        cargo = shutil.which("cargo") or "/root/.cargo/bin/cargo"
        extra_path = ":" + os.path.dirname(cargo) + ":/usr/bin:/bin"
        extra_env = {"CARGO": cargo, "HOME": os.environ.get("HOME", "/root"), "CARGO_NET_OFFLINE": "true"}
        for k in ("RUSTUP_HOME", "CARGO_HOME", "RUSTUP_TOOLCHAIN"):
            if k in os.environ:
                extra_env[k] = os.environ[k]
    sp = os.path.join(root, "scenario.json")
    json.dump(scenario, open(sp, "w"))
    log = os.path.join(root, "cli.log")
    env = {"PATH": os.path.join(root, "bin") + extra_path, "TMPDIR": os.path.join(root, "tmp"), "CARGO_MANIFEST_DIR": manifest_dir,
           "FAKECLI_LOG": log, "FAKECLI_FAIL": ",".join(str(i) for i in fail if isinstance(i, int)),
           "FAKECLI_HARD": ",".join(i[:-1] for i in fail if isinstance(i, str)), "RUST_BACKTRACE": "0"}
    env.update(extra_env)
    if host_env:
        env.update(host_env)
    r = subprocess.run([RUNNER, sp], env=env, cwd=root, stdout=subprocess.PIPE, stderr=subprocess.PIPE, timeout=600)
    res = {"outcome": "abort", "message": r.stderr.decode(errors="replace")[-300:], "exit": r.returncode}
    out = r.stdout.decode(errors="replace").strip().splitlines()
    if r.returncode == 0 and out:
        try:
            res.update(json.loads(out[-1]))
        except ValueError:
            pass
    res["log"] = [json.loads(l) for l in open(log)] if os.path.exists(log) else []
    res["tmp_left"] = sorted(os.listdir(os.path.join(root, "tmp")))
    res["fixture_same"] = fixture_state(root, manifest_dir) == FIXTURE_FILES
    if post:
        post(root, res)
    return res


class ParseError(Exception):
    pass


def parse_opts(argv, valued, boolean, stop_at_positional):
    """generic pflag-style parse -> (options list [(name, value)], positionals)"""
    opts, pos = [], []
    i = 0
    while i < len(argv):
        a = argv[i]
        if a == "--":
            pos += argv[i + 1:]
            break
        if a.startswith("--") and len(a) > 2:
            name, eq, val = a[2:].partition("=")
            if name in valued:
                if eq:
                    opts.append((name, val))
                else:
                    if i + 1 >= len(argv):
                        raise ParseError(f"option --{name} needs a value")
                    opts.append((name, argv[i + 1]))
                    i += 1
            elif name in boolean:
                opts.append((name, True))
            else:
                raise ParseError(f"unknown option --{name}")
        elif a.startswith("-") and len(a) > 1:
            raise ParseError(f"unknown short option {a}")
        else:
            pos.append(a)
            if stop_at_positional:
                pos += argv[i + 1:]
                break
        i += 1
    return opts, pos


def decode(entry):
    """one log entry -> dict(kind=..., ...) by the reference grammar"""
    prog, argv = entry["prog"], entry["argv"]
    if prog == "pack":
        if argv[:1] == ["build"]:
            opts, pos = parse_opts(argv[1:], {"builder", "cache", "path", "pull-policy", "buildpack", "env"}, {"trust-builder", "trust-extra-buildpacks"}, False)
            if len(pos) != 1:
                raise ParseError(f"pack build: positionals {pos}")
            return {"kind": "pack-build", "image": pos[0], "opts": opts}
        if argv[:2] == ["sbom", "download"]:
            opts, pos = parse_opts(argv[2:], {"output-dir"}, set(), False)
            if len(pos) != 1:
                raise ParseError(f"pack sbom download: positionals {pos}")
            return {"kind": "pack-sbom", "image": pos[0], "opts": opts}
        raise ParseError(f"unknown pack command {argv[:2]}")
    a = list(argv)
    if a[:1] == ["container"] and a[1:2] == ["rm"]:
        a = ["rm"] + a[2:]
    if a[:1] == ["image"] and a[1:2] in (["rm"], ["remove"]):
        a = ["rmi"] + a[2:]
    cmd = a[0] if a else ""
    if cmd == "run":
        opts, pos = parse_opts(a[1:], {"name", "platform", "entrypoint", "env", "publish", "mount"}, {"detach", "rm"}, True)
        if not pos:
            raise ParseError("docker run without image")
        return {"kind": "run", "opts": opts, "image": pos[0], "command": pos[1:], "name": dict((k, v) for k, v in opts if k == "name").get("name"),
                "detach": ("detach", True) in opts}
    if cmd == "exec":
        opts, pos = parse_opts(a[1:], set(), set(), True)
        return {"kind": "exec", "container": pos[0] if pos else None, "command": pos[1:]}
    if cmd == "logs":
        opts, pos = parse_opts(a[1:], set(), {"follow"}, False)
        return {"kind": "logs", "container": pos[0] if len(pos) == 1 else None, "opts": opts}
    if cmd == "port":
        opts, pos = parse_opts(a[1:], set(), set(), False)
        return {"kind": "port", "container": pos[0] if pos else None, "port": pos[1] if len(pos) > 1 else None}
    if cmd == "rm":
        opts, pos = parse_opts(a[1:], set(), {"force", "volumes"}, False)
        return {"kind": "rm", "names": pos, "force": ("force", True) in opts}
    if cmd == "rmi":
        opts, pos = parse_opts(a[1:], set(), {"force"}, False)
        return {"kind": "rmi", "names": pos, "force": ("force", True) in opts}
    if cmd == "volume" and a[1:2] in (["rm"], ["remove"]):
        opts, pos = parse_opts(a[2:], set(), {"force"}, False)
        return {"kind": "volume-rm", "names": pos, "force": ("force", True) in opts}
    raise ParseError(f"unknown docker command {a[:2]}")


def names_in(d):
    """every resource name a decoded command refers to"""
    k = d["kind"]
    if k == "pack-build":
        n = [d["image"]]
        for o, v in d["opts"]:
            if o == "cache" and "name=" in v:
                n.append(v.split("name=", 1)[1])
        return n
    if k == "pack-sbom":
        return [d["image"]]
    if k == "run":
        return [d["image"]] + ([d["name"]] if d["name"] else [])
    if k in ("exec", "logs", "port"):
        return [d["container"]]
    return list(d["names"])
