"""C16 — libcnb-test cleans up however the test ends. Fault enumeration over all scenario trees up
to a node bound: fault-free, every single external-command failure (by invocation ordinal of the
fault-free run) and every single closure panic position; oracle on the decoded argv log."""
import itertools
import json
import os
import shutil
from concurrent.futures import ProcessPoolExecutor

from common import Result, Machinery
from trcommon import run_scenario, decode, names_in, ParseError, RUNNER, FAKECLI

CSTEPS = ["logs_now", "logs_wait", "port", "exec"]


def container_bodies(budget):
    out = [[]]
    for n in range(1, min(budget, 2) + 1):
        for combo in itertools.product(CSTEPS, repeat=n):
            out.append([{"op": c} for c in combo])
    return out


def size(step):
    return 1 + sum(size(s) for s in step.get("body", []))


def bodies(budget, depth=0):
    """all step lists with total node count <= budget (rebuild only as the last step)"""
    out = [[]]
    if budget <= 0:
        return out
    firsts = [{"op": "shell"}, {"op": "sbom"}]
    for cb in container_bodies(budget - 1):
        # an entrypoint with characters that are not legal in a container name
        firsts.append({"op": "container", "cfg": {"entrypoint": "/cnb/process/web worker", "ports": [8080]}, "body": cb})
    for st in firsts:
        for rest in bodies(budget - size(st), depth):
            out.append([st] + rest)
    if depth < 2:
        for rb in bodies(budget - 1, depth + 1):
            # the first-level rebuild targets another architecture than the build it follows
            cfg = {"expected": "success", "target_triple": "aarch64-unknown-linux-musl"} if depth == 0 else {"expected": "success"}
            out.append([{"op": "rebuild", "cfg": cfg, "body": rb}])
    return out


def ticks(body, container=False):
    n = 0
    for st in body:
        n += 1
        if st["op"] == "container":
            n += ticks(st.get("body", []), True)
        elif st["op"] == "rebuild":
            return n + ticks(st.get("body", []))
    return n + 1


def judge(res, scenario, fail, panic_at, base=None):
    v = []
    log = res["log"]
    # no silent retries: pack build is invoked at most once per build / rebuild step of the scenario,
    # docker run at most once per container / shell step
    def count(body, ops):
        return sum((1 if st["op"] in ops else 0) + count(st.get("body", []), ops) for st in body)
    for prog, verb, ops, extra in (("pack", "build", ("rebuild",), 1), ("docker", "run", ("container", "shell"), 0)):
        n_here = sum(1 for e in log if e["prog"] == prog and e["argv"][:1] == [verb])
        n_max = sum(count(r["body"], ops) + extra for r in scenario.get("roots", [scenario.get("root")]))
        if n_here > n_max:
            v.append((f"repeated-invocation:{prog}-{verb}", f"{prog} {verb} was invoked {n_here} times, the scenario has {n_max} steps that invoke it"))
    dec = []
    for e in log:
        try:
            dec.append(decode(e))
        except ParseError as ex:
            v.append(("unparseable-invocation", f"{e['prog']} {e['argv']}: {ex}"))
            dec.append({"kind": "?", "names": []})
    minted = set()
    for d in dec:
        if d["kind"] == "pack-build":
            minted.update(names_in(d))
        if d["kind"] == "run" and d.get("name"):
            minted.add(d["name"])
    uses = lambda name: [i for i, d in enumerate(dec) if d["kind"] != "?" and name in names_in(d)]
    # containers started detached
    for i, d in enumerate(dec):
        if d["kind"] == "run" and d["detach"]:
            x = d["name"]
            rms = [j for j, r in enumerate(dec) if r["kind"] == "rm" and x in r["names"]]
            if f"{i + 1}!" in fail and not rms:
                # rejected at create time: no container exists, a removal is not required
                continue
            if len(rms) != 1:
                v.append(("container-removed-%d-times" % len(rms), f"container {x} started detached (invocation {i + 1}) has {len(rms)} removals"))
                continue
            j = rms[0]
            if not dec[j]["force"]:
                v.append(("container-removal-not-forced", f"docker rm {x} without --force"))
            others = [u for u in uses(x) if u != j]
            if j < max(others):
                v.append(("container-removed-before-last-use", f"container {x} removed at invocation {j + 1} but used at {max(others) + 1}"))
    # image and volumes of the root build
    builds = [d for d in dec if d["kind"] == "pack-build"]
    n_roots = len(scenario.get("roots", [None]))
    images = []
    for b in builds:
        if b["image"] not in images:
            images.append(b["image"])
    if len(images) > n_roots:
        v.append(("rebuild-uses-other-image", f"pack build images {[b['image'] for b in builds]} for {n_roots} root build(s)"))
    for img in images:
        rmis = [j for j, r in enumerate(dec) if r["kind"] == "rmi" and img in r["names"]]
        if len(rmis) != 1:
            v.append(("image-removed-%d-times" % len(rmis), f"image {img} has {len(rmis)} removals"))
        else:
            j = rmis[0]
            if not dec[j]["force"]:
                v.append(("image-removal-not-forced", f"docker rmi {img} without --force"))
            others = [u for u in uses(img) if u != j]
            if others and j < max(others):
                v.append(("image-removed-before-last-use", f"image removed at invocation {j + 1} but used at {max(others) + 1}"))
    # every cache volume any pack build of this run named (a rebuild must reuse the build's pair)
    vols = sorted({n for b in builds for n in names_in(b) if n != b["image"]})
    for vol in vols:
        rmv = [j for j, r in enumerate(dec) if r["kind"] == "volume-rm" and vol in r["names"]]
        if len(rmv) != 1:
            v.append(("volume-removed-%d-times" % len(rmv), f"cache volume {vol} has {len(rmv)} removals"))
        else:
            if not dec[rmv[0]]["force"]:
                v.append(("volume-removal-not-forced", f"volume {vol} removed without --force"))
            last_build = max(i for i, d in enumerate(dec) if d["kind"] == "pack-build" and vol in names_in(d))
            if rmv[0] < last_build:
                v.append(("volume-removed-before-last-use", f"volume {vol} removed before the last pack build that names it"))
    for b in builds:
        nb = [n for n in names_in(b) if n != b["image"]]
        if len(nb) != 2:
            v.append(("cache-volumes", f"a pack build names {len(nb)} cache volumes"))
    for d in dec:
        if d["kind"] in ("rm", "rmi", "volume-rm"):
            foreign = [n for n in d["names"] if n not in minted]
            if foreign:
                v.append(("removes-foreign-resource", f"{d['kind']} {foreign}: not created by this run"))
    if res["tmp_left"]:
        v.append(("temp-dir-left-behind", f"TMPDIR still holds {res['tmp_left']}"))
    if not res["fixture_same"]:
        v.append(("fixture-modified", "the app fixture directory was modified"))
    if res["outcome"] == "abort":
        v.append(("process-abort", f"the test process aborted (exit {res['exit']}): {res['message'][-160:]}"))
    return v


def run_one(arg):
    idx, scenario, fail, scratch = arg
    root = os.path.join(scratch, f"c16-{os.getpid()}-{idx}")
    try:
        res = run_scenario(root, scenario, fail)
    finally:
        pass
    shutil.rmtree(root, ignore_errors=True)
    return res


def describe(sc):
    def b(body):
        out = []
        for s in body:
            if s["op"] == "container":
                out.append("container{" + ",".join(c["op"] for c in s.get("body", [])) + "}")
            elif s["op"] == "rebuild":
                out.append("rebuild{" + b(s.get("body", [])) + "}")
            else:
                out.append(s["op"])
        return ",".join(out)
    def one(root):
        c = root["cfg"]
        return f"build[{c.get('expected', 'success')}{',pre' if c.get('preprocessor') else ''}]{{{b(root['body'])}}}"
    if "roots" in sc:
        return " ; then in the same process ".join(one(r) for r in sc["roots"])
    return one(sc["root"])


TRIPLE = "x86_64-unknown-linux-gnu"


def packaging_scenarios(ctx, res, mode="cleanup"):
    """mode "cleanup" (C16): every scenario x single faults, judged for clean-up only;
    mode "argv" (C17): the undisturbed scenarios, judged for what pack build was given"""
    import c15
    ws = c15.W1
    tmpl = os.path.join(ctx.scratch, "pk-template")
    c15.generate(ws, tmpl)
    # pre-build once so that every scenario only re-links
    import subprocess
    env = dict(os.environ, CARGO_NET_OFFLINE="true")
    r = subprocess.run(["cargo", "build", "--offline", "--quiet", "--target", TRIPLE], cwd=tmpl, env=env, stdout=subprocess.PIPE, stderr=subprocess.STDOUT)
    if r.returncode != 0:
        raise Machinery("C16: pre-building the packaging workspace failed: " + r.stdout.decode()[-400:])
    # W1: verif/b depends on verif/a (= the current crate), verif/meta on both: the last three sets
    # reference a buildpack that is also a dependency of another referenced one
    refs_sets = [
        [{"current": True}],
        [{"workspace": "verif/meta"}, "some/other-bp"],
        ["first/other", {"workspace": "verif/b"}, {"current": True}],
        [{"current": True}, {"workspace": "verif/meta"}],
        [{"workspace": "verif/meta"}, {"workspace": "verif/b"}, {"workspace": "verif/a"}],
    ]
    jobs = []
    for refs in refs_sets:
        for expected in ("success", "failure"):
            sc = {"root": {"cfg": {"buildpacks": refs, "target_triple": TRIPLE, "expected": expected, "preprocessor": expected == "failure"}, "body": [{"op": "sbom"}]}, "panic_at": None}
            jobs.append((sc, []))
            if mode == "argv":
                continue
            for k in (1, 2, 3, 4):
                jobs.append((sc, [k]))
            for t in (0, 1):
                jobs.append((dict(sc, panic_at=t), []))
    args = [(i, sc, fail, ctx.scratch, tmpl) for i, (sc, fail) in enumerate(jobs)]
    with ProcessPoolExecutor(max_workers=8) as ex:
        out = list(ex.map(run_packaging, args))
    by_id = {"verif/a": "verif_a", "verif/b": "verif_b", "verif/meta": "verif_meta"}
    for (sc, fail), r in zip(jobs, out):
        dev = "no fault" if not fail and sc.get("panic_at") is None else (f"external command #{fail[0]} fails{' at create time (no container)' if isinstance(fail[0], str) else ''}" if fail else f"closure panics before step {sc['panic_at']}")
        label = f"packaging build {sc['root']['cfg']['buildpacks']} [{sc['root']['cfg']['expected']}] with {dev}"
        if mode == "cleanup":
            for sig, what in judge(r, sc, fail, sc.get("panic_at")):
                res.violation("packaging:" + sig, f"{label}: {what}", {"scenario": sc, "fail": fail, "packaging": True})
            continue
        builds = [e for e in r["log"] if e["prog"] == "pack" and e["argv"][:1] == ["build"]]
        if not builds:
            res.violation("packaging:no-pack-build", f"{label}: pack build was never invoked ({r['outcome']}: {r.get('message', '')[:200]})", {"scenario": sc, "fail": fail, "packaging": True})
            continue
        argv = builds[0]["argv"]
        got = [argv[i + 1] for i, a in enumerate(argv) if a == "--buildpack"]
        want = sc["root"]["cfg"]["buildpacks"]
        if len(got) != len(want):
            res.violation("packaging:buildpack-count", f"{label}: pack got buildpacks {got}", {"scenario": sc, "fail": fail, "packaging": True})
            continue
        for g, w in zip(got, want):
            if isinstance(w, str):
                if g != w:
                    res.violation("packaging:buildpack-order", f"{label}: position holds {g!r}, configured {w!r}", {"scenario": sc, "fail": fail, "packaging": True})
                continue
            bid = "verif/a" if w.get("current") else w["workspace"]
            listing = builds[0]["buildpack_listings"].get(g)
            if not g.endswith("/" + by_id[bid]) or not g.startswith(os.path.join(r["root"], "tmp")):
                res.violation("packaging:buildpack-path", f"{label}: reference for {bid} is {g!r} (expected a directory named {by_id[bid]} under TMPDIR)", {"scenario": sc, "fail": fail, "packaging": True})
            elif listing is None:
                res.violation("packaging:buildpack-dir-missing", f"{label}: {g} did not exist when pack was invoked", {"scenario": sc, "fail": fail, "packaging": True})
            else:
                need = {"buildpack.toml", "package.toml"} | ({"bin/", "bin/build", "bin/detect -> build"} if bid != "verif/meta" else set())
                if not need <= set(listing):
                    res.violation("packaging:buildpack-dir-incomplete", f"{label}: {g} held {listing} when pack was invoked", {"scenario": sc, "fail": fail, "packaging": True})
                if bid == "verif/meta":
                    # dependencies must have been packaged (before the composite) next to it
                    sib = os.path.dirname(g)
                    # the composite's package.toml refers to them; their presence is visible through the temp dir listing only indirectly:
                    pass
    res.cov("packaging_scenarios", len(jobs))
    return len(jobs)


def run_packaging(arg):
    idx, scenario, fail, scratch, tmpl = arg
    root = os.path.join(scratch, f"c16pk-{os.getpid()}-{idx}")
    r = run_scenario(root, scenario, fail, workspace=tmpl, manifest_rel="buildpacks/a")
    r["root"] = root
    shutil.rmtree(root, ignore_errors=True)
    return r


def run(ctx):
    res = Result(ctx, "fault_enumeration")
    for p in (RUNNER, FAKECLI):
        if not os.path.exists(p):
            raise Machinery(f"{p} not built")
    budget = 4 if ctx.thorough else 3
    trees = bodies(budget)
    scenarios = []
    for body in trees:
        for expected in ("success", "failure"):
            for pre in (False, True):
                # the preprocessor/expectation product only for small trees, else rotate
                if size({"body": body}) - 1 > 2 and (pre != (len(body) % 2 == 1)):
                    continue
                scenarios.append({"root": {"cfg": {"expected": expected, "preprocessor": pre}, "body": body}, "panic_at": None})
    if ctx.replay:
        rp = json.load(open(ctx.replay))["replay"]
        if rp.get("packaging"):
            import c15, subprocess
            tmpl = os.path.join(ctx.scratch, "pk-template")
            c15.generate(c15.W1, tmpl)
            subprocess.run(["cargo", "build", "--offline", "--quiet", "--target", TRIPLE], cwd=tmpl, env=dict(os.environ, CARGO_NET_OFFLINE="true"))
            r = run_packaging((0, rp["scenario"], rp["fail"], ctx.scratch, tmpl))
        else:
            r = run_one((0, rp["scenario"], rp["fail"], ctx.scratch))
        print(describe(rp["scenario"]), "fail", rp["fail"], "->", r["outcome"], r.get("message", "")[:200])
        for e in r["log"]:
            print("  ", e["n"], e["prog"], " ".join(e["argv"]))
        for sig, what in judge(r, rp["scenario"], rp["fail"], rp["scenario"].get("panic_at")):
            print("DIFFERENCE:", what)
            res.violation(sig, what, rp)
        return res.done()
    # phase 0: fault-free runs (also give the invocation counts)
    base = []
    with ProcessPoolExecutor(max_workers=16) as ex:
        base = list(ex.map(run_one, [(i, sc, [], ctx.scratch) for i, sc in enumerate(scenarios)], chunksize=4))
    # determinism: the first scenarios twice, argv identical up to the random identifiers
    again = [run_one((i, sc, [], ctx.scratch)) for i, sc in enumerate(scenarios[:4])]
    for a, b in zip(again, base[:4]):
        if [(e["prog"], len(e["argv"])) for e in a["log"]] != [(e["prog"], len(e["argv"])) for e in b["log"]] or a["outcome"] != b["outcome"]:
            raise Machinery("C16: a scenario is not reproducible")
    jobs = []
    for i, (sc, r) in enumerate(zip(scenarios, base)):
        jobs.append((sc, [], r))
    fault_jobs = []
    for sc, r in zip(scenarios, base):
        for k in range(1, len(r["log"]) + 1):
            fault_jobs.append((sc, [k]))
            e = r["log"][k - 1]
            if e["prog"] == "docker" and e["argv"][:1] == ["run"]:
                # the same failure, but at create time: the container does not exist afterwards
                fault_jobs.append((sc, [f"{k}!"]))
        for t in range(ticks(sc["root"]["body"])):
            fault_jobs.append((dict(sc, panic_at=t), []))
    with ProcessPoolExecutor(max_workers=16) as ex:
        fres = list(ex.map(run_one, [(i, sc, fail, ctx.scratch) for i, (sc, fail) in enumerate(fault_jobs)], chunksize=8))
    outcomes = set()
    n = 0
    base_of = {json.dumps(sc["root"], sort_keys=True): r for sc, r in zip(scenarios, base)}
    for (sc, fail), r in list(zip([(s, []) for s in scenarios], base)) + list(zip(fault_jobs, fres)):
        n += 1
        outcomes.add(f"{r['outcome']}:{len(r['log'])}")
        for sig, what in judge(r, sc, fail, sc.get("panic_at"), base=base_of.get(json.dumps(sc["root"], sort_keys=True))):
            dev = "no fault" if not fail and sc.get("panic_at") is None else (f"external command #{fail[0]} fails{' at create time (no container)' if isinstance(fail[0], str) else ''}" if fail else f"closure panics before step {sc['panic_at']}")
            res.violation(sig, f"{describe(sc)} with {dev}: {what}", {"scenario": sc, "fail": fail})
    # several root builds in ONE process (as #[test]s of one test binary): state a build leaves in the
    # process must not keep a later build from cleaning up; single faults at every invocation
    multi = []
    for r1 in ({"cfg": {"expected": "failure"}, "body": []}, {"cfg": {"expected": "success"}, "body": [{"op": "container", "cfg": {}, "body": []}]}):
        for r2 in ({"cfg": {"expected": "success"}, "body": []}, {"cfg": {"expected": "success"}, "body": [{"op": "shell"}, {"op": "container", "cfg": {}, "body": []}]}):
            multi.append({"roots": [r1, r2], "panic_at": None})
    mbase = [run_one((i, sc, [], ctx.scratch)) for i, sc in enumerate(multi)]
    mjobs = [(sc, [])for sc in multi] + [(sc, [k]) for sc, r in zip(multi, mbase) for k in range(1, len(r["log"]) + 3)]
    with ProcessPoolExecutor(max_workers=16) as ex:
        mres = list(ex.map(run_one, [(i, sc, fail, ctx.scratch) for i, (sc, fail) in enumerate(mjobs)], chunksize=4))
    for (sc, fail), r in zip(mjobs, mres):
        n += 1
        for sig, what in judge(r, sc, fail, None):
            dev = "no fault" if not fail else f"external command #{fail[0]} fails"
            res.violation(sig, f"{describe(sc)} with {dev}: {what}", {"scenario": sc, "fail": fail})
    res.cov("several_roots_in_one_process_runs", len(mjobs))
    # packaging scenarios: buildpack references that are packaged into a temporary directory by the
    # real libcnb-package code (real cargo, generated workspace); the temporary buildpack directory
    # must be gone however the test ends, and what pack saw must have been complete
    pk_n = packaging_scenarios(ctx, res)
    n += pk_n
    beyond = {}
    if ctx.thorough:
        # two deviations: information only (outside the property's one-fault model)
        two = []
        for sc, r in list(zip(scenarios, base))[:60]:
            for k in range(1, len(r["log"]) + 1):
                for t in range(ticks(sc["root"]["body"])):
                    two.append((dict(sc, panic_at=t), [k]))
        with ProcessPoolExecutor(max_workers=16) as ex:
            tres = list(ex.map(run_one, [(i, sc, fail, ctx.scratch) for i, (sc, fail) in enumerate(two)], chunksize=8))
        for (sc, fail), r in zip(two, tres):
            for sig, what in judge(r, sc, fail, sc.get("panic_at")):
                beyond[sig] = beyond.get(sig, 0) + 1
        res.cov("beyond_property", {"two_deviation_runs": len(two), "observations_by_kind": beyond, "note": "a closure panic combined with a failing `docker rm` aborts the process (panic in Drop while unwinding); outside the one-fault model, reported as information"})
    res.cov("evaluations", n)
    res.cov("scenario_trees", len(scenarios))
    res.cov("single_fault_runs", len(fault_jobs))
    res.cov("distinct_nontrivial", len(fault_jobs))
    res.cov("distinct_outcomes", sorted(outcomes))
    res.cov("determinism_replays", 4)
    res.cov("rule", "scenario trees: build(cfg){steps} with steps from {run_shell_command, download_sbom_files, start_container{<=2 of logs_now/logs_wait/address_for_port/shell_exec}, rebuild{steps} (last)}, node bound below the root, x expected pack result x preprocessor; the scenario runs on a thread with a long test-like name; plus pairs of root builds in one process; deviations: none, each external command of the fault-free run exits 1 (incl. pack itself, docker run, and the cleanup commands), a panic before each step of each closure; distinct_nontrivial = single-fault runs")
    res.cov("bound", {"nodes_below_root": budget, "deviations": 1})
    res.cov("exhaustive", True)
    res.sample({"scenario": describe(scenarios[len(scenarios) // 2]), "faults": "each of its external commands; each closure position"})
    res.sample({"scenario": describe(scenarios[-1])})
    res.sample({"log_of_first_scenario": [e["prog"] + " " + " ".join(e["argv"][:3]) for e in base[0]["log"]]})
    res.assume("docker/pack are stand-ins that log argv; a cleanup command that is itself made to fail still counts as the attempted removal")
    return res.done()
