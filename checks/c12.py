"""C12 — a failed file operation is reported. Fault enumeration: every position of the recorded
syscall history of each operation x errno, injected with `strace -e inject=`.

Per operation: prepare the state (real libcnb operations, no faults), record the history under
`strace -y`, keep the calls of the mutating/data-reading set whose path lies under the
operation's sandbox, and for each (syscall name, per-name ordinal) re-prepare the state and run
with the fault injected; the log must show `(INJECTED)` on the same call and path as recorded
(otherwise machinery error). Oracle: a run that reports success must leave the same directory
snapshot as the fault-free run."""
import json
import os
import re
import shutil
import stat
import subprocess
from concurrent.futures import ProcessPoolExecutor

from common import Result, Machinery, TARGET, VERIF

OPRUNNER = os.path.join(TARGET, "oprunner")
VB = os.path.join(TARGET, "vb")
SHIM = os.path.join(VERIF, "target", "libdetrand.so")
SYSCALLS = ("openat,open,read,pread64,write,pwrite64,getdents64,mkdir,mkdirat,unlink,unlinkat,rmdir,rename,renameat,renameat2,"
            "chmod,fchmod,fchmodat,symlink,symlinkat,link,linkat,copy_file_range,sendfile,ftruncate")

ENV_FULL = [["all", "override", "A", "1"], ["build", "append", "A", "2"], ["build", "delim", "A", ":"], ["launch", "default", "B", "3"], ["process:web", "override", "C", "4"]]
ENV_OTHER = [["all", "prepend", "Z", "9"], ["process:worker", "override", "W", "1"]]
RICH = [{"op": "cached", "name": "a", "build": True, "launch": True},
        {"op": "write_metadata", "name": "a", "metadata": {"version": "1"}},
        {"op": "write_env", "name": "a", "env": ENV_FULL},
        {"op": "write_sboms", "name": "a", "sboms": [["cdx", "{}"], ["spdx", "{}"]]},
        {"op": "write_exec_d", "name": "a", "programs": {"p1": "p1", "p2": "p2"}},
        {"op": "put_file", "name": "a", "rel": "sub/dir/file", "data": "x"},
        {"op": "put_file", "name": "a", "rel": "top", "data": "y"}]
LEGACY = RICH[:1] + [{"op": "write_metadata", "name": "a", "metadata": {"legacy": 1}}] + RICH[2:]
RESULT = {"metadata": {"version": "2"}, "env": ENV_OTHER, "execd": {"p3": "p3"}, "sboms": [["syft", "{}"]]}
KEEP = {"op": "cached", "name": "a", "build": True, "launch": False, "restored": "keep"}

# name -> (preparation ops, operation ops)   [oprunner]
OPS = {
    "cached-new": ([], [{"op": "cached", "name": "a", "build": True}]),
    "cached-keep": (RICH, [KEEP]),
    "cached-delete": (RICH, [{"op": "cached", "name": "a", "build": True, "restored": "delete"}]),
    "cached-invalid-replace": (LEGACY, [{"op": "cached", "name": "a", "build": True, "meta_type": "v1", "invalid": "replace"}]),
    "cached-invalid-delete": (LEGACY, [{"op": "cached", "name": "a", "build": True, "meta_type": "v1", "invalid": "delete"}]),
    "uncached-new": ([], [{"op": "uncached", "name": "a", "launch": True}]),
    "uncached-existing": (RICH, [{"op": "uncached", "name": "a", "launch": True}]),
    "write-metadata": (RICH, [KEEP, {"op": "write_metadata", "name": "a", "metadata": {"version": "3", "t": {"k": [1, 2]}}}]),
    "write-env": (RICH, [KEEP, {"op": "write_env", "name": "a", "env": ENV_OTHER}]),
    "write-sboms": (RICH, [KEEP, {"op": "write_sboms", "name": "a", "sboms": [["syft", "{\"s\":1}"]]}]),
    "write-exec-d": (RICH, [KEEP, {"op": "write_exec_d", "name": "a", "programs": {"p3": "p3"}}]),
    "read-env": (RICH, [KEEP, {"op": "read_env", "name": "a"}]),
    "handle-create": ([], [{"op": "handle", "name": "a", "types": [True, True, True], "result": RESULT}]),
    "handle-keep": (RICH, [{"op": "handle", "name": "a", "types": [True, False, True], "strategy": "keep", "result": RESULT}]),
    "handle-update": (RICH, [{"op": "handle", "name": "a", "types": [True, False, True], "strategy": "update", "result": RESULT}]),
    "handle-recreate": (RICH, [{"op": "handle", "name": "a", "types": [True, False, True], "strategy": "recreate", "result": RESULT}]),
    "handle-migrate-replace": (LEGACY, [{"op": "handle", "name": "a", "meta_type": "v1", "types": [True, False, True], "strategy": "keep", "migration": "replace", "migrated": {"version": "9"}, "result": dict(RESULT, metadata={"version": "2"})}]),
    "handle-migrate-recreate": (LEGACY, [{"op": "handle", "name": "a", "meta_type": "v1", "types": [True, False, True], "strategy": "keep", "migration": "recreate", "result": dict(RESULT, metadata={"version": "2"})}]),
    "write-exec-d-two": (RICH, [KEEP, {"op": "write_exec_d", "name": "a", "programs": {"p3": "p3", "p1": "p2"}}]),
    "layerenv-write": (RICH, [{"op": "env_write", "name": "a", "env": ENV_OTHER}]),
    "layerenv-read": (RICH, [{"op": "env_read", "name": "a"}]),
    # the same writes into a layer directory that has no write bit (restored read-only): READONLY marks it
    "write-env-readonly-dir": (RICH + ["READONLY"], [KEEP, {"op": "write_env", "name": "a", "env": ENV_OTHER}]),
    "handle-update-readonly-dir": (RICH + ["READONLY"], [{"op": "handle", "name": "a", "types": [True, False, True], "strategy": "update", "result": RESULT}]),
    # <layer>.toml is a symlink to a regular file elsewhere in the sandbox (TOMLLINK): whatever the code does about the link is file operations too
    "cached-keep-toml-link": (RICH + ["TOMLLINK"], [KEEP]),
    "write-metadata-toml-link": (RICH + ["TOMLLINK"], [KEEP, {"op": "write_metadata", "name": "a", "metadata": {"version": "4"}}]),
    "handle-update-toml-link": (RICH + ["TOMLLINK"], [{"op": "handle", "name": "a", "types": [True, False, True], "strategy": "update", "result": RESULT}]),
}
# runtime phases through the real executable
RUNTIME = {
    "runtime-build": {"build": {"kind": "pass", "launch": {"processes": [{"type": "web", "command": ["x"]}]}, "store": {"k": "v"},
                                "build_sboms": [["cdx", "{}"], ["syft", "{}"]], "launch_sboms": [["spdx", "{}"]]}},
    "runtime-build-with-layer": {"build": {"kind": "pass", "ops": RICH, "store": {"k": "v"}}},
    "runtime-detect-plan": {"detect": {"kind": "pass_plan", "plan": [["provides", "a"], ["or"], ["requires", "b"]]}},
    # a build over what an earlier build with other SBOM formats, a launch.toml and a store left behind
    "runtime-build-over-previous": {"build": {"kind": "pass", "build_sboms": [["cdx", "{\"b\":2}"]], "launch_sboms": [["spdx", "{\"l\":2}"]]}},
}
PREVIOUS_OUTPUTS = {"launch.toml": "[[processes]]\ntype = \"old\"\ncommand = [\"o\"]\n", "store.toml": "[metadata]\nold = 1\n", "build.sbom.spdx.json": "{\"old\":1}",
                    "build.sbom.cdx.json": "{\"old\":2}", "launch.sbom.syft.json": "{\"old\":3}", "launch.sbom.cdx.json": "{\"old\":4}"}
SHORT_OPS = ["cached-new", "uncached-new", "write-sboms"]


def snapshot(root):
    out = {}
    for dirpath, dirnames, filenames in os.walk(root):
        for n in dirnames + filenames:
            p = os.path.join(dirpath, n)
            st = os.lstat(p)
            rel = os.path.relpath(p, root)
            if stat.S_ISLNK(st.st_mode):
                out[rel] = ("l", os.readlink(p))
            elif stat.S_ISDIR(st.st_mode):
                out[rel] = ("d", stat.S_IMODE(st.st_mode))
            else:
                try:
                    data = open(p, "rb").read()
                except OSError as e:
                    data = repr(e).encode()
                out[rel] = ("f", stat.S_IMODE(st.st_mode), data)
    return out


def prepare(root, name):
    """fresh sandbox with the operation's prepared state; returns the command to run"""
    shutil.rmtree(root, ignore_errors=True)
    for d in ("layers", "app", "buildpack/src", "platform/env"):
        os.makedirs(os.path.join(root, d))
    for p in ("p1", "p2", "p3"):
        fp = os.path.join(root, "buildpack", "src", p)
        open(fp, "w").write(f"#!/bin/sh\necho {p}\n")
        os.chmod(fp, 0o755)
    sdir = root + ".scripts"
    os.makedirs(sdir, exist_ok=True)
    env = {"VERIF_HASH_SEED": "7", "LD_PRELOAD": SHIM}
    if name in OPS:
        prep, op = OPS[name]
        readonly = "READONLY" in prep
        tomllink = "TOMLLINK" in prep
        prep = [x for x in prep if x not in ("READONLY", "TOMLLINK")]
        if prep:
            ps = os.path.join(sdir, "prep.json")
            json.dump({"ops": prep}, open(ps, "w"))
            r = subprocess.run([OPRUNNER, root, ps], env=env, stdout=subprocess.PIPE, stderr=subprocess.PIPE)
            if r.returncode != 0:
                raise Machinery(f"C12 preparation of {name} failed: {r.stdout!r} {r.stderr!r}")
        if readonly:
            os.chmod(os.path.join(root, "layers", "a"), 0o555)
        if tomllink:
            os.makedirs(os.path.join(root, "elsewhere"))
            os.rename(os.path.join(root, "layers", "a.toml"), os.path.join(root, "elsewhere", "a.toml"))
            os.symlink("../elsewhere/a.toml", os.path.join(root, "layers", "a.toml"))
        s = os.path.join(sdir, "op.json")
        json.dump({"ops": op}, open(s, "w"))
        return [OPRUNNER, root, s], env, root
    script = dict(RUNTIME[name])
    script["log"] = os.path.join(sdir, "markers.log")
    # the context the buildpack code receives is written into the sandbox: an input whose read
    # failed silently (variable / store / plan entry missing) then shows as a differing directory
    script["dump"] = os.path.join(root, "context-dump.json")
    if os.path.exists(script["log"]):
        os.unlink(script["log"])
    s = os.path.join(sdir, "script.json")
    json.dump(script, open(s, "w"))
    open(os.path.join(root, "buildpack", "buildpack.toml"), "w").write('api = "0.10"\n\n[buildpack]\nid = "verif/vb"\nversion = "1.2.3"\n\n[[targets]]\nos = "linux"\n')
    open(os.path.join(root, "plan-in.toml"), "w").write('[[entries]]\nname = "dep"\n\n[entries.metadata]\nv = 1\n')
    open(os.path.join(root, "platform", "env", "VAR"), "w").write("value")
    open(os.path.join(root, "platform", "env", "OTHER"), "w").write("second")
    if name != "runtime-build-over-previous":
        open(os.path.join(root, "layers", "store.toml"), "w").write('[metadata]\nprevious = "store"\n')
    if name == "runtime-build-over-previous":
        for rel, data in PREVIOUS_OUTPUTS.items():
            open(os.path.join(root, "layers", rel), "w").write(data)
    env.update({"CNB_BUILDPACK_DIR": os.path.join(root, "buildpack"), "VB_SCRIPT": s, "CNB_TARGET_OS": "linux", "CNB_TARGET_ARCH": "amd64",
                "CNB_TARGET_DISTRO_NAME": "u", "CNB_TARGET_DISTRO_VERSION": "1"})
    phase = "detect" if "detect" in name else "build"
    exe_link = os.path.join(sdir, phase)
    if not os.path.exists(exe_link):
        os.symlink(VB, exe_link)
    if phase == "detect":
        cmd = [exe_link, os.path.join(root, "platform"), os.path.join(root, "plan.toml")]
    else:
        cmd = [exe_link, os.path.join(root, "layers"), os.path.join(root, "platform"), os.path.join(root, "plan-in.toml")]
    return cmd, env, os.path.join(root, "app")


CALL_RE = re.compile(r"^(\w+)\((.*)$")
PATH_RE = re.compile(r'"((?:[^"\\]|\\.)*)"|<(/[^>]*)>')


def parse_log(path, root):
    """-> list of (name, ordinal, relevant path or None, line), exit code"""
    counts = {}
    calls = []
    code = None
    for line in open(path, errors="replace"):
        m = re.match(r"^\+\+\+ exited with (\d+) \+\+\+", line)
        if m:
            code = int(m.group(1))
            continue
        if line.startswith("+++ killed"):
            code = -9
            continue
        m = CALL_RE.match(line)
        if not m:
            continue
        name = m.group(1)
        counts[name] = counts.get(name, 0) + 1
        rel = None
        argtext = m.group(2).split(") = ")[0] if ") = " in m.group(2) else m.group(2)
        argtext = re.sub(r"AT_FDCWD<[^>]*>", "AT_FDCWD", argtext)
        for q, a in PATH_RE.findall(argtext):
            p = q or a
            if p.startswith(root + "/") or p == root:
                rel = p[len(root):] or "/"
                break
        calls.append((name, counts[name], rel, line.rstrip()))
    return calls, code


def strace(cmd, env, cwd, log, inject=None):
    args = ["strace", "-y", "-e", f"trace={SYSCALLS}", "-o", log]
    for i in inject or []:
        args += ["-e", f"inject={i}"]
    r = subprocess.run(args + cmd, env=env, cwd=cwd, stdout=subprocess.PIPE, stderr=subprocess.PIPE)
    return r


def record(name, root):
    cmd, env, cwd = prepare(root, name)
    log = root + ".rec.log"
    r = strace(cmd, env, cwd, log)
    calls, code = parse_log(log, root)
    snap = snapshot(root)
    return calls, code, snap, r


def inject_run(arg):
    name, root, faults, errno = arg
    # faults: list of (syscall, ordinal, expected path)
    cmd, env, cwd = prepare(root, name)
    log = root + ".inj.log"
    # strace keeps only ONE inject expression per syscall name: two ordinals of the same syscall are
    # expressed as when=first+step (which also hits later multiples - still a valid fault sequence)
    exprs = {}
    for sc, k, _ in faults:
        exprs.setdefault(sc, []).append(k)
    inj = [f"{sc}:error={errno}:when={ks[0]}" if len(ks) == 1 else f"{sc}:error={errno}:when={ks[0]}+{ks[1] - ks[0]}" for sc, ks in exprs.items()]
    r = strace(cmd, env, cwd, log, inj)
    calls, code = parse_log(log, root)
    snap = snapshot(root)
    delivered = []
    for sc, k, want_path in faults:
        hit = [c for c in calls if c[0] == sc and c[1] == k]
        ok = bool(hit) and "(INJECTED)" in hit[0][3] and hit[0][2] == want_path
        delivered.append(ok)
    marks = ""
    ml = os.path.join(root + ".scripts", "markers.log")
    if os.path.exists(ml):
        marks = open(ml).read()
    shutil.rmtree(root, ignore_errors=True)
    return code, snap, delivered, r.stderr.decode(errors="replace")[-300:], marks


def self_test(scratch):
    d = os.path.join(scratch, "selftest")
    os.makedirs(d, exist_ok=True)
    log = os.path.join(d, "log")
    r = subprocess.run(["strace", "-e", "trace=mkdir", "-e", "inject=mkdir:error=EIO:when=1", "-o", log, "mkdir", os.path.join(d, "x")], stdout=subprocess.PIPE, stderr=subprocess.PIPE)
    if "(INJECTED)" not in open(log).read() or os.path.exists(os.path.join(d, "x")):
        raise Machinery("strace fault injection is not available in this sandbox (ptrace?)")


def run(ctx):
    res = Result(ctx, "fault_enumeration")
    for b in (OPRUNNER, VB, SHIM):
        if not os.path.exists(b):
            raise Machinery(f"{b} not built")
    self_test(ctx.scratch)
    names = list(OPS) + list(RUNTIME)
    errnos = ["EIO", "EACCES", "ENOSPC"] if ctx.thorough else ["EIO", "EACCES"]
    if ctx.replay:
        rp = json.load(open(ctx.replay))["replay"]
        names = [rp["op"]]
    jobs = []
    base = {}
    positions = {}
    for name in names:
        root = os.path.join(ctx.scratch, f"rec-{name}")
        calls, code, snap, r = record(name, root)
        calls2, code2, snap2, _ = record(name, root)
        if [(c[0], c[1], c[2]) for c in calls] != [(c[0], c[1], c[2]) for c in calls2] or snap != snap2 or code != code2:
            raise Machinery(f"C12: history of {name} is not reproducible")
        if code != 0:
            raise Machinery(f"C12: fault-free run of {name} exits {code}: {r.stdout!r} {r.stderr!r}")
        kept = [(c[0], c[1], c[2]) for c in calls if c[2] is not None]
        base[name] = snap
        positions[name] = kept
        shutil.rmtree(root, ignore_errors=True)
        for i, f in enumerate(kept):
            for e in errnos:
                jobs.append((name, os.path.join(ctx.scratch, f"inj-{name}-{i}-{e}"), [f], e))
        if ctx.thorough and name in SHORT_OPS:
            for i in range(len(kept)):
                for j in range(i + 1, len(kept)):
                    jobs.append((name, os.path.join(ctx.scratch, f"inj2-{name}-{i}-{j}"), [kept[i], kept[j]], "EIO"))
    if ctx.replay:
        jobs = [j for j in jobs if [list(f) for f in j[2]] == rp["faults"] and j[3] == rp["errno"]]
    outcomes = set()
    n_first_undelivered = 0
    distinct = set()
    with ProcessPoolExecutor(max_workers=16) as ex:
        for (name, root, faults, errno), (code, snap, delivered, out, marks) in zip(jobs, ex.map(inject_run, jobs, chunksize=4)):
            desc = f"{name}: {errno} injected into " + " and ".join(f"{sc}#{k} on {p}" for sc, k, p in faults)
            replay = {"op": name, "faults": [list(f) for f in faults], "errno": errno}
            if not delivered[0]:
                # the first fault must always be delivered at the recorded call (history reproducibility)
                n_first_undelivered += 1
                res.violation("MACHINERY", f"{desc}: the fault was not delivered at the recorded call", replay)
                continue
            distinct.add((name, faults[0][0], faults[0][1], errno, len(faults)))
            same = snap_equal(snap, base[name], root, os.path.join(ctx.scratch, f"rec-{name}"))
            outcomes.add(f"{'success' if code == 0 else 'exit' + str(code)}:{'same' if same else 'differs'}")
            if ctx.replay:
                print(f"{desc}: exit {code}, directory {'identical to' if same else 'DIFFERS from'} the fault-free result; output {out!r}")
            if code == 0 and not same:
                res.violation(f"success-after-failed-{faults[0][0]}:{name}", f"{desc}: the operation reported success but the directory differs from a successful run: {snap_diff(snap, base[name], root, os.path.join(ctx.scratch, 'rec-' + name))}", replay)
            elif code == 0:
                # the directory is as after a fault-free run, but a file operation did fail (the
                # (INJECTED) marker was verified on the recorded call) and nobody was told
                res.violation(f"success-after-failed-{faults[0][0]}:{name}:same-result", f"{desc}: the operation reported success although the call failed (the directory equals the fault-free result)", replay)
            elif code not in (0, 1, 3, 100) and name in OPS:
                res.violation(f"crash-on-io-error:{name}", f"{desc}: the process ended with status {code} instead of returning an error: {out!r}", replay)
            elif name in RUNTIME and code != 0:
                if code == 100:
                    res.violation(f"exit-100-on-io-error:{name}", f"{desc}: exit status 100", replay)
                elif marks.count("on_error") > 1:
                    res.violation("on-error-twice", f"{desc}: error handler ran {marks.count('on_error')} times", replay)
    if n_first_undelivered:
        raise Machinery(f"C12: {n_first_undelivered} injections were not delivered at the recorded call - histories are not reproducible")
    res.cov("evaluations", len(jobs))
    res.cov("distinct_nontrivial", len(distinct))
    res.cov("operations", len(names))
    res.cov("positions_per_operation", {n: len(p) for n, p in positions.items()})
    res.cov("distinct_outcomes", sorted(outcomes))
    res.cov("determinism_replays", len(names))
    res.cov("rule", "for each operation: every call of {open(at), read, write, getdents64, mkdir, unlink(at), rmdir, rename*, chmod*, symlink*, link*, copy_file_range, sendfile, ftruncate} whose path or fd-path lies in the operation's sandbox, addressed as (syscall, per-name ordinal) from a recording that was reproduced twice, x errno; distinct = (operation, syscall, ordinal, errno[, second fault]) with the (INJECTED) marker verified on the recorded call and path")
    res.cov("bound", {"faults_per_run": "1 (thorough: all pairs for the three shortest operations)", "errnos": errnos})
    res.cov("exhaustive", True)
    for n in names[:3]:
        res.sample({"operation": n, "history": [f"{sc}#{k} {os.path.basename(p)}" for sc, k, p in positions[n]][:12]})
    res.assume("stat-family, access, readlink, close and fsync are not fault positions (existence probes legitimately swallow errors)")
    res.assume("HashMap iteration order is pinned with the getrandom shim so that histories are reproducible")
    return res.done()


def norm(snap, root):
    return {k: (v if v[0] != "l" else ("l", v[1].replace(root, "<root>"))) for k, v in snap.items()}


def snap_equal(a, b, ra, rb):
    return norm(a, ra) == norm(b, rb)


def snap_diff(a, b, ra, rb):
    a, b = norm(a, ra), norm(b, rb)
    out = []
    for k in sorted(set(a) | set(b)):
        if a.get(k) != b.get(k):
            out.append(f"{k}: {str(a.get(k))[:80]} vs expected {str(b.get(k))[:80]}")
    return out[:6]
