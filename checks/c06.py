"""C06 — contexts reflect the platform's inputs: bounded-exhaustive inputs through the real
executable; the context the buildpack code receives is dumped by vb and compared with the inputs."""
import itertools
import json
import os
import shutil
from concurrent.futures import ProcessPoolExecutor

import tomlgen
from common import Result, Machinery
from vbcommon import World, VALID_BP_TOML, DEFAULT_TARGET_ENV, ensure_vb

NAMES = [b"A", b"a.b", b"with space", b"=x", "ü".encode(), b"\xff", b".hidden", b"..double"]
FILE_CONTENTS = [b"", b"v", b"a\nb\n", b" x "]
KINDS = [("file", c) for c in FILE_CONTENTS] + [("dir", None), ("link-file", b"via-link"), ("link-dir", None), ("dangling", None), ("file", b"\xff\xfe"),
         ("link-file-relative", b"via-relative-link"), ("link-file-sibling", b"via-sibling-link")]

TARGET_VARS = ["CNB_TARGET_OS", "CNB_TARGET_ARCH", "CNB_TARGET_ARCH_VARIANT", "CNB_TARGET_DISTRO_NAME", "CNB_TARGET_DISTRO_VERSION"]
TARGET_FIELD = {"CNB_TARGET_OS": "os", "CNB_TARGET_ARCH": "arch", "CNB_TARGET_ARCH_VARIANT": "arch_variant", "CNB_TARGET_DISTRO_NAME": "distro_name", "CNB_TARGET_DISTRO_VERSION": "distro_version"}
TARGET_VALUES = [b"linux", b"", b"a b", b"\xff\xfe", b"windows", b'"quoted"', b" padded\t"]


def hexs(b):
    return b.hex()


def run_case(arg):
    idx, case, scratch = arg
    root = os.path.join(scratch, f"c06-{os.getpid()}-{idx}")
    if case["kind"] == "sequence":
        try:
            v, o = judge_sequence(root, case)
            return [(sig, f"{what} [case {json.dumps(case)}]") for sig, what in v], o
        finally:
            shutil.rmtree(root, ignore_errors=True)
    w = World(root)
    try:
        return judge(w, case)
    finally:
        shutil.rmtree(w.root, ignore_errors=True)


def load_dump(w):
    try:
        return json.load(open(w.dump))
    except FileNotFoundError:
        return None


SEQ_WORLDS = 2
SEQ_VARIANTS = 3
VBSEQ_PATH = None


def seq_step(W, sym, k, root):
    """one in-process invocation: world wi in content variant var (3 = descriptor removed)"""
    wi, var, phase = sym
    w = W[wi]
    tag = f"{'xy'[wi]}{var}"
    bp = None if var == 3 else VALID_BP_TOML.replace("verif/vb", f"verif/{tag}").replace("1.2.3", f"1.0.{var}") + f'\n[metadata]\nk = "{tag}"\n'
    dump = os.path.join(root, f"dump-{k}.json")
    script = os.path.join(root, f"script-{k}.json")
    # what the invocation writes (removed before every step, collected after it); store.toml is reset
    # to the variant's content before the step, so it is compared as well
    outputs = [w.p("plan.toml"), w.p("layers", "launch.toml"), w.p("layers", "build.sbom.cdx.json"), w.p("layers", "launch.sbom.spdx.json")]
    writes = [[w.p("bp", "buildpack.toml"), bp], [w.p("platform", "env", "VAR"), tag], [w.p("platform", "env", "ONLY2"), "two" if var == 2 else None],
              [w.p("bp_plan.toml"), f'[[entries]]\nname = "dep-{tag}"\n\n[entries.metadata]\nv = "{tag}"\n'], [w.p("layers", "store.toml"), f'[metadata]\ns = "{tag}"\n'],
              [script, json.dumps({"dump": dump, "log": w.log, "detect": {"kind": "pass_plan", "plan": [["provides", f"p-{tag}"], ["requires", f"r-{tag}"]]},
                                   "build": {"kind": "pass", "launch": {"processes": [{"type": "web", "command": [f"run-{tag}"], "args": [], "default": True}], "labels": [[f"l-{tag}", tag]]},
                                             "store": {"written-by": tag}, "build_sboms": [["cdx", json.dumps({"sbom": tag})]], "launch_sboms": [["spdx", json.dumps({"sbom": tag})]]}})],
              [dump, None]] + [[f, None] for f in outputs]
    env = dict(DEFAULT_TARGET_ENV)
    env["CNB_TARGET_ARCH"] = ["amd64", "arm64", "amd64"][var - 1]
    env["CNB_TARGET_DISTRO_VERSION"] = f"{var}.04"
    if var == 2:
        env["CNB_TARGET_ARCH_VARIANT"] = "v8"
    env["CNB_BUILDPACK_DIR"] = w.p("bp")
    env["VB_SCRIPT"] = script
    args = [w.p("platform"), w.p("plan.toml")] if phase == "detect" else [w.p("layers"), w.p("platform"), w.p("bp_plan.toml")]
    return {"phase": phase, "cwd": w.p("app"), "env": env, "args": args, "writes": writes, "collect": outputs + [w.p("layers", "store.toml")]}, dump


def run_seq(W, syms, root):
    import subprocess
    steps, dumps = [], []
    for k, sym in enumerate(syms):
        st, d = seq_step(W, sym, k, root)
        steps.append(st)
        dumps.append(d)
    sp = os.path.join(root, "steps.json")
    json.dump(steps, open(sp, "w"))
    r = subprocess.run([VBSEQ_PATH, sp], env={"PATH": "/usr/bin:/bin"}, stdout=subprocess.PIPE, stderr=subprocess.PIPE, timeout=60)
    if r.returncode != 0:
        return None, r.stderr.decode(errors="replace")[-300:]
    res = json.loads(r.stdout.decode().strip().splitlines()[-1])
    out = []
    for step_res, d in zip(res, dumps):
        dump = None
        if os.path.exists(d):
            dump = json.load(open(d))
            os.unlink(d)
        out.append({"ok": step_res["ok"], "code": step_res.get("code"), "error": step_res.get("error"), "dump": dump, "files": step_res.get("files")})
    return out, ""


def judge_sequence(root, case, compare="context"):
    """differential oracle: every step of an in-process sequence of detect/build calls must give the
    buildpack code the same context (and the caller the same result) as that step run alone in a
    fresh process"""
    v = []
    os.makedirs(root, exist_ok=True)
    W = [World(os.path.join(root, n)) for n in ("X", "Y")[:SEQ_WORLDS]]
    syms = [tuple(x) for x in case["symbols"]]
    solo = {}
    for sym in sorted(set(syms)):
        got, err = run_seq(W, [sym], root)
        if got is None:
            raise Machinery(f"vbseq died on a single step {sym}: {err}")
        solo[sym] = got[0]
        if (sym[1] == 3) == got[0]["ok"] or (got[0]["ok"] and got[0]["dump"] is None):
            # the single invocation itself is judged by the other case kinds; here only its shape
            v.append(("sequence-solo-shape", f"single invocation {sym} gave {str(got[0])[:300]}"))
            return v, "sequence:solo-odd"
    got, err = run_seq(W, syms, root)
    if got is None:
        v.append(("in-process-sequence:died", f"the process running {syms} died: {err}"))
        return v, "sequence:died"
    for k, (sym, g) in enumerate(zip(syms, got)):
        want = solo[sym]
        if compare == "context":
            # C06 judges what the buildpack code is handed (and whether it is reached); the files
            # an invocation leaves are C05's subject (checks/c05.py runs the same sequences for them)
            g, want = dict(g, files=None), dict(want, files=None)
        else:
            g, want = dict(g, dump=None), dict(want, dump=None)
        if g != want:
            field = "result"
            if compare == "outputs" and g["ok"] == want["ok"] and g["code"] == want["code"]:
                field = "outputs"
                bad_files = [f for f in want["files"] if g["files"].get(f) != want["files"][f]]
                detail = "; ".join(f"{os.path.basename(f)}: {bytes.fromhex(g['files'][f] or '')[:120]!r} instead of {bytes.fromhex(want['files'][f] or '')[:120]!r}" for f in bad_files[:3])
            elif g["ok"] == want["ok"] and g["dump"] and want["dump"]:
                field = next((f for f in want["dump"]["context"] if g["dump"]["context"].get(f) != want["dump"]["context"][f]), "dump")
                detail = f"{field}: {json.dumps(g['dump']['context'].get(field))[:300]} instead of {json.dumps(want['dump']['context'][field])[:300]}"
            else:
                detail = f"ok={g['ok']} code={g['code']} error={g['error']} phase-ran={g['dump'] is not None}; alone: ok={want['ok']} code={want['code']} error={want['error']} phase-ran={want['dump'] is not None}"
            v.append((f"in-process-sequence:{field}", f"step {k + 1} of the in-process sequence {syms} (world, variant, phase) differs from the same invocation run alone: {detail}"))
            break
    return v, f"sequence:{len(syms)}:{''.join('o' if g['ok'] else 'e' for g in got)}"


def judge(w, case):
    kind = case["kind"]
    v = []

    def bad(sig, what):
        v.append((sig, f"{what} [case {json.dumps(case, default=repr)[:600]}]"))

    phase = case.get("phase", "build")
    env = None
    expect_error = False
    expect_env = {}
    if kind == "platform-env":
        envdir = w.p("platform", "env").encode()
        os.makedirs(w.p("targets", "d"), exist_ok=True)
        for name_i, kind_i in case["entries"]:
            name = NAMES[name_i]
            k, content = KINDS[kind_i]
            path = os.path.join(envdir, name)
            if k == "file":
                open(path, "wb").write(content)
                try:
                    content.decode()
                    expect_env[hexs(name)] = hexs(content)
                except UnicodeDecodeError:
                    expect_error = True
            elif k == "dir":
                os.mkdir(path)
            elif k == "link-file":
                t = w.p("targets", f"f{name_i}").encode()
                open(t, "wb").write(content)
                os.symlink(t, path)
                expect_env[hexs(name)] = hexs(content)
            elif k == "link-file-relative":
                # relative target resolved against the env directory (k8s style ..data/NAME)
                os.makedirs(os.path.join(envdir, b"..data"), exist_ok=True)
                open(os.path.join(envdir, b"..data", b"f%d" % name_i), "wb").write(content)
                os.symlink(b"..data/f%d" % name_i, path)
                expect_env[hexs(name)] = hexs(content)
            elif k == "link-file-sibling":
                t = w.p("platform", f"sib{name_i}").encode()
                open(t, "wb").write(content)
                os.symlink(b"../sib%d" % name_i, path)
                expect_env[hexs(name)] = hexs(content)
            elif k == "link-dir":
                os.symlink(w.p("targets", "d").encode(), path)
            else:
                os.symlink(w.p("targets", "nowhere").encode(), path)
    elif kind == "platform-env-long":
        n = case["length"]
        body = (b"0123456789abcdef" * (n // 16 + 1))[:n]
        open(w.p("platform", "env", "LONG"), "wb").write(body)
        open(w.p("platform", "env", "AFTER"), "wb").write(b"x")
        expect_env = {hexs(b"LONG"): hexs(body), hexs(b"AFTER"): hexs(b"x")}
    elif kind == "missing-dir":
        if case["what"] == "env":
            shutil.rmtree(w.p("platform", "env"))
        else:
            shutil.rmtree(w.p("platform"))
    elif kind == "target":
        env = {}
        for var, val_i in zip(TARGET_VARS, case["values"]):
            if val_i is not None:
                env[var.encode()] = TARGET_VALUES[val_i]
        for var, val_i in zip(TARGET_VARS, case["values"]):
            if val_i is None and var != "CNB_TARGET_ARCH_VARIANT":
                expect_error = True
            if val_i == 3:
                expect_error = True
    elif kind == "toml":
        val = tuple_from_json(case["value"])
        where = case["where"]
        body = tomlgen.emit_table_body({"k": val, "other": ("i", 1)})
        if where == "plan":
            n = case.get("entries", 1)
            text = ""
            for i in range(n):
                text += f"[[entries]]\nname = {tomlgen.basic_string(PLAN_NAMES(n)[i])}\n\n[entries.metadata]\n{body}\n"
                if n >= 3:
                    # same-named neighbours differ in their metadata: every entry is an entry
                    text += f"idx = {i}\n"
            if n == 0:
                text = ""
            open(w.p("bp_plan.toml"), "w").write(text)
        elif where == "store":
            open(w.p("layers", "store.toml"), "w").write(f"[metadata]\n{body}")
        else:
            open(w.p("bp", "buildpack.toml"), "w").write(VALID_BP_TOML + f"\n[metadata]\n{body}")
        if case.get("via") == "fifo":
            # the same document, but the path is a FIFO (what `<(...)` or a streaming platform hands
            # over): its reported size (0) says nothing about its content
            target = {"store": w.p("layers", "store.toml"), "plan": w.p("bp_plan.toml"), "descriptor": w.p("bp", "buildpack.toml")}[where]
            data = open(target, "rb").read()
            os.unlink(target)
            os.mkfifo(target)

            def feed():
                import time
                end = time.time() + 30
                while time.time() < end:
                    try:
                        fd = os.open(target, os.O_WRONLY | os.O_NONBLOCK)
                    except OSError:
                        time.sleep(0.005)
                        continue
                    try:
                        os.set_blocking(fd, True)
                        os.write(fd, data)
                    except OSError:
                        pass
                    finally:
                        os.close(fd)
                    return
            import threading
            threading.Thread(target=feed, daemon=True).start()
    elif kind == "descriptor-stacks":
        # a descriptor of the older kind: stacks, no targets - the context shows exactly that
        text = VALID_BP_TOML[:VALID_BP_TOML.index("[[targets]]")] + f'[[stacks]]\nid = "{case["stack"]}"\n'
        open(w.p("bp", "buildpack.toml"), "w").write(text)
    elif kind == "store-absent":
        pass
    elif kind == "store-empty-metadata":
        open(w.p("layers", "store.toml"), "w").write("[metadata]\n")
    elif kind == "dir-forms":
        def spell(name, form):
            real = w.p(name)
            if form == "plain":
                return real
            if form == "symlink":
                os.symlink(real, w.p("ln-" + name))
                return w.p("ln-" + name)
            if form == "relative":
                return "../" + name
            return w.p(".", name, "..", name)
        open(w.p("platform", "env", "VAR"), "w").write("val")
        open(w.p("layers", "store.toml"), "w").write('[metadata]\nk = "stored"\n')
        sp = {n: spell(n, case[k]) for n, k in (("layers", "layers"), ("platform", "platform"), ("bp", "buildpack"))}
        import subprocess
        e = {k.encode(): v.encode() for k, v in DEFAULT_TARGET_ENV.items()}
        e[b"CNB_BUILDPACK_DIR"] = sp["bp"].encode()
        e[b"VB_SCRIPT"] = w.script_path.encode()
        json.dump({"log": w.log, "dump": w.dump}, open(w.script_path, "w"))
        args = [sp["platform"], w.p("plan.toml")] if phase == "detect" else [sp["layers"], sp["platform"], w.p("bp_plan.toml")]
        r = subprocess.run([phase] + args, executable=VB_PATH, env=e, cwd=w.p("app"), stdout=subprocess.PIPE, stderr=subprocess.PIPE)
        dump = load_dump(w)
        outcome = f"{kind}:{r.returncode}:{'dump' if dump else 'nodump'}"
        if r.returncode != 0 or dump is None:
            bad("valid-input-rejected:dir-forms", f"exit {r.returncode}, stderr {r.stderr[-300:]!r}")
            return v, outcome
        c = dump["context"]
        if c["buildpack_dir"] != sp["bp"]:
            bad("directory-respelled:buildpack", f"CNB_BUILDPACK_DIR={sp['bp']!r} reached the context as {c['buildpack_dir']!r}")
        if phase == "build" and c["layers_dir"] != sp["layers"]:
            bad("directory-respelled:layers", f"layers argument {sp['layers']!r} reached the context as {c['layers_dir']!r}")
        if c["app_dir"] != w.p("app"):
            bad("wrong-directories", f"app dir {c['app_dir']!r}")
        if {k: val for k, val in c["platform_env"]} != {hexs(b"VAR"): hexs(b"val")}:
            bad("platform-env-missing-variable", f"platform given as {sp['platform']!r}: env in context {c['platform_env']}")
        if phase == "build" and (c["store"] is None or not tomlgen.same(tomlgen.from_vbjson(c["store"]), ("t", {"k": ("s", "stored")}))):
            bad("store-altered", f"layers given as {sp['layers']!r}: store in context {c['store']}")
        return v, outcome
    elif kind == "unreadable":
        # an input file that exists but cannot be represented: must be a reported error
        target = {"store": w.p("layers", "store.toml"), "plan": w.p("bp_plan.toml"), "descriptor": w.p("bp", "buildpack.toml")}[case["where"]]
        if os.path.exists(target):
            os.unlink(target)
        if case["how"] == "zero-length":
            open(target, "wb").write(b"")
        elif case["how"] in ("non-utf8", "non-utf8-comment"):
            # an otherwise complete and valid document with bytes that are not UTF-8, inside a string
            # value or inside a comment
            valid = {"store": b'[metadata]\nk = "v"\n', "plan": b'[[entries]]\nname = "dep"\n', "descriptor": VALID_BP_TOML.encode()}[case["where"]]
            bad = b'\n# caf\xe9\n' if case["how"] == "non-utf8-comment" else (b'\n[metadata.zz]\nq = "\xff\xfe"\n' if case["where"] != "plan" else b'\n[entries.metadata]\nq = "\xff\xfe"\n')
            open(target, "wb").write(valid + bad)
        elif case["how"] == "directory":
            os.mkdir(target)
        elif case["how"] == "dangling":
            os.symlink(w.p("nowhere"), target)
            # a dangling store.toml is indistinguishable from an absent one for open(2): only
            # required for plan and descriptor
            expect_error = case["where"] != "store"
        else:
            open(target, "w").write("[metadata\n")
        if case["how"] != "dangling":
            expect_error = True
    if env is None:
        # every platform variable is also set, differently, in the buildpack process's own
        # environment: the context must report what <platform>/env holds, not what the process has
        own = {}
        if kind == "platform-env":
            for name_i, _ in case["entries"]:
                try:
                    n = NAMES[name_i].decode()
                except UnicodeDecodeError:
                    continue
                if "=" not in n:
                    own[n] = "value-of-the-buildpack-process"
        r = w.run(phase, {}, extra_env=own)
    else:
        e = {k: v2 for k, v2 in env.items()}
        e[b"CNB_BUILDPACK_DIR"] = w.p("bp").encode()
        e[b"VB_SCRIPT"] = w.script_path.encode()
        json.dump({"log": w.log, "dump": w.dump}, open(w.script_path, "w"))
        import subprocess
        args = [w.p("platform"), w.p("plan.toml")] if phase == "detect" else [w.p("layers"), w.p("platform"), w.p("bp_plan.toml")]
        r = subprocess.run([phase] + args, executable=VB_PATH, env=e, cwd=w.p("app"), stdout=subprocess.PIPE, stderr=subprocess.PIPE)
    marks = w.markers()
    dump = load_dump(w)
    outcome = f"{kind}:{r.returncode}:{'dump' if dump else 'nodump'}"
    if expect_error:
        if r.returncode == 0 or dump is not None:
            sig = "unrepresentable-value-not-reported"
            if kind == "target" and case["values"][2] == 3 and all(x not in (None, 3) for i, x in enumerate(case["values"]) if i != 2):
                sig = "arch-variant-not-unicode"
            bad(sig, f"an input that cannot be represented (or a missing mandatory variable) did not produce an error: exit {r.returncode}, phase ran={dump is not None}, context target={dump and dump['context'].get('target')}")
        elif marks.count("on_error") != 1 and not (kind == "unreadable" and case["where"] == "descriptor"):
            bad("error-not-reported-through-on-error", f"exit {r.returncode} but on_error ran {marks.count('on_error')} times")
        return v, outcome
    if r.returncode != 0 or dump is None:
        bad(f"valid-input-rejected:{kind}", f"valid platform input was rejected: exit {r.returncode}, stderr {r.stderr[-300:]!r}, markers {w.marker_lines()}")
        return v, outcome
    c = dump["context"]
    if c["app_dir"] != w.p("app") or c["buildpack_dir"] != w.p("bp") or (phase == "build" and c["layers_dir"] != w.p("layers")):
        bad("wrong-directories", f"context directories {c['app_dir']}, {c['buildpack_dir']}, {c.get('layers_dir')}")
    if kind in ("platform-env", "missing-dir", "platform-env-long"):
        got = {k: val for k, val in c["platform_env"]}
        if got != expect_env and kind == "platform-env-long":
            bad("platform-env-value-altered", f"a value of {case['length']} bytes reached the context with {len(got.get(hexs(b'LONG'), '')) // 2} bytes (variables {sorted(bytes.fromhex(k).decode() for k in got)})")
        elif got != expect_env:
            extra = set(got) - set(expect_env)
            missing = set(expect_env) - set(got)
            sig = "platform-env-extra-variable" if extra else "platform-env-missing-variable" if missing else "platform-env-value-altered"
            bad(sig, f"platform env in context {got} (hex), expected {expect_env}")
    if kind == "target":
        t = c["target"]
        for var, val_i in zip(TARGET_VARS, case["values"]):
            want = None if val_i is None else TARGET_VALUES[val_i].decode()
            if t[TARGET_FIELD[var]] != want:
                bad("target-field-wrong", f"context target.{TARGET_FIELD[var]} = {t[TARGET_FIELD[var]]!r}, {var} was {want!r}")
    else:
        t = c["target"]
        if (t["os"], t["arch"], t["arch_variant"], t["distro_name"], t["distro_version"]) != ("linux", "amd64", None, "ubuntu", "24.04"):
            bad("target-field-wrong", f"context target {t}")
    if kind == "toml":
        val = tuple_from_json(case["value"])
        want = ("t", {"k": val, "other": ("i", 1)})
        where = case["where"]
        if where == "plan":
            n = case.get("entries", 1)
            if len(c["plan"]) != n:
                bad("plan-entries-lost", f"context has {len(c['plan'])} plan entries, the plan file has {n}")
            for i, e in enumerate(c["plan"][:n]):
                if e["name"] != PLAN_NAMES(n)[i]:
                    bad("plan-entry-name", f"entry {i} name {e['name']!r}, the file says {PLAN_NAMES(n)[i]!r}")
                want_i = want if n < 3 else ("t", dict(want[1], idx=("i", i)))
                if not tomlgen.same(tomlgen.from_vbjson(e["metadata"]), want_i):
                    bad("plan-metadata-altered", f"plan entry {i} metadata in context {e['metadata']} differs from the file ({want_i})")
        elif where == "store":
            if c["store"] is None or not tomlgen.same(tomlgen.from_vbjson(c["store"]), want):
                bad("store-altered", f"store in context {c['store']} differs from store.toml ({want})")
        else:
            md = c["descriptor"]["metadata"]
            if md is None or not tomlgen.same(tomlgen.from_vbjson(md), want):
                bad("descriptor-metadata-altered", f"descriptor metadata in context {md} differs from buildpack.toml ({want})")
    if kind == "store-empty-metadata":
        if c["store"] is None or not tomlgen.same(tomlgen.from_vbjson(c["store"]), ("t", {})):
            bad("store-altered", f"store.toml holds an empty metadata table, context.store = {c['store']}")
    elif kind != "toml" or case["where"] != "store":
        if phase == "build" and c["store"] is not None:
            bad("store-invented", f"no store.toml but context.store = {c['store']}")
    d = c["descriptor"]
    if kind == "descriptor-stacks":
        if d["targets"] != [] or len(d.get("stacks", [])) != 1 or case["stack"] not in d["stacks"][0]:
            bad("descriptor-altered", f"buildpack.toml declares the stack {case['stack']!r} and no targets; the context has targets {d['targets']} and stacks {d.get('stacks')}")
    elif (d["id"], d["version"], d["api"]) != ("verif/vb", "1.2.3", "0.10") or d["targets"] != [{"os": "linux", "arch": "amd64", "variant": None, "distros": []}]:
        bad("descriptor-altered", f"descriptor in context {d}")
    return v, outcome


VB_PATH = None


def PLAN_NAMES(n):
    # from three entries on, neighbours share a name (the lifecycle writes one entry per requirement)
    return ["dep", "a b"] * 2 if n < 3 else ["dep", "dep", "a b", "a b", "dep"][:n]


def tuple_from_json(j):
    t, x = j
    if t == "a":
        return ("a", [tuple_from_json(e) for e in x])
    if t == "t":
        return ("t", {k: tuple_from_json(e) for k, e in x.items()})
    if t == "f":
        return ("f", float(x))
    return (t, x)


def tuple_to_json(v):
    t, x = v
    if t == "a":
        return ["a", [tuple_to_json(e) for e in x]]
    if t == "t":
        return ["t", {k: tuple_to_json(e) for k, e in x.items()}]
    if t == "f":
        return ["f", repr(x)]
    return [t, x]


def cases(thorough):
    out = []
    # A. platform env: all sets of <= k entries with distinct names
    entries = [(n, k) for n in range(len(NAMES)) for k in range(len(KINDS))]
    out.append({"kind": "platform-env", "entries": []})
    for e in entries:
        for phase in ("build", "detect"):
            out.append({"kind": "platform-env", "entries": [e], "phase": phase})
    for a, b in itertools.combinations(entries, 2):
        if a[0] != b[0]:
            out.append({"kind": "platform-env", "entries": [a, b]})
    if thorough:
        small = [(n, k) for n in range(len(NAMES)) for k in (1, 4, 5, 6, 7, 8)]
        for a, b, c in itertools.combinations(small, 3):
            if len({a[0], b[0], c[0]}) == 3:
                out.append({"kind": "platform-env", "entries": [a, b, c]})
    for what in ("env", "platform"):
        for phase in ("build", "detect"):
            out.append({"kind": "missing-dir", "what": what, "phase": phase})
    # value lengths around powers of two (buffer sizes, argument-length limits): 2^k-1, 2^k, 2^k+1
    for k in (12, 16, 17, 20):
        for d in (-1, 0, 1):
            out.append({"kind": "platform-env-long", "length": (1 << k) + d, "phase": "build" if d else "detect"})
    # C. target variables: present/absent x values
    opts = [None, 0, 1, 2, 3, 4, 5, 6]
    for combo in itertools.product(opts, repeat=5):
        n_odd = sum(1 for x in combo if x != 0)
        if not thorough and n_odd > 2:
            continue
        out.append({"kind": "target", "values": list(combo), "phase": "build" if n_odd % 2 == 0 else "detect"})
    # B. TOML values in plan / store / descriptor metadata
    for val in tomlgen.all_values():
        for where in ("plan", "store", "descriptor"):
            out.append({"kind": "toml", "where": where, "value": tuple_to_json(val)})
    for n in (0, 2, 3, 5):
        out.append({"kind": "toml", "where": "plan", "entries": n, "value": tuple_to_json(("s", "x"))})
    for where in ("plan", "store"):
        for val in (("s", "x"), ("a", [("i", 1), ("s", "y" * 70000)])):
            out.append({"kind": "toml", "where": where, "value": tuple_to_json(val), "via": "fifo"})
    for stack in ("*", "io.buildpacks.stacks.bionic", "io.buildpacks.stacks.jammy"):
        for phase in ("build", "detect"):
            out.append({"kind": "descriptor-stacks", "stack": stack, "phase": phase})
    out.append({"kind": "store-absent"})
    # a store with an empty metadata table is a store (not "no store"); a zero-length store.toml lacks the mandatory table
    out.append({"kind": "store-empty-metadata"})
    out.append({"kind": "unreadable", "where": "store", "how": "zero-length"})
    for where in ("store", "plan", "descriptor"):
        for how in ("non-utf8", "non-utf8-comment", "directory", "dangling", "malformed"):
            out.append({"kind": "unreadable", "where": where, "how": how})
    # E. the directories handed over in other spellings: via a symlink, relative to the working
    # directory (= app dir), with redundant segments; the context must name them as supplied
    forms = ["plain", "symlink", "relative", "dotted"]
    for fl, fp, fb in itertools.product(forms, repeat=3):
        out.append({"kind": "dir-forms", "layers": fl, "platform": fp, "buildpack": fb, "phase": "build"})
    for fp, fb in itertools.product(forms, repeat=2):
        out.append({"kind": "dir-forms", "layers": "plain", "platform": fp, "buildpack": fb, "phase": "detect"})
    # D. in-process sequences of programmatic detect/build invocations (two worlds x three content
    # variants x two phases), every sequence up to the length bound
    symbols = [(wi, var, ph) for wi in range(SEQ_WORLDS) for var in range(1, SEQ_VARIANTS + 1) for ph in ("detect", "build")]
    for n in range(2, (4 if thorough else 3) + 1):
        for seq in itertools.product(symbols, repeat=n):
            out.append({"kind": "sequence", "symbols": [list(x) for x in seq]})
    return out


def run(ctx):
    global VB_PATH, VBSEQ_PATH
    ensure_vb()
    import vbcommon
    VB_PATH = vbcommon.VB
    VBSEQ_PATH = os.path.join(os.path.dirname(VB_PATH), "vbseq")
    res = Result(ctx, "exploration")
    if ctx.replay:
        doc = json.load(open(ctx.replay))
        case = doc["replay"]["case"]
        v, o = run_case((0, case, ctx.scratch))
        print(f"case {case} -> {o}")
        for sig, what in v:
            print("DIFFERENCE:", what)
            res.violation(sig, what, {"case": case})
        return res.done()
    cs = cases(ctx.thorough)
    a = [run_case((i, c, ctx.scratch)) for i, c in enumerate(cs[:6])]
    b = [run_case((i, c, ctx.scratch)) for i, c in enumerate(cs[:6])]
    # compared by verdict (signatures + outcome class): the texts may quote process ids of a crashing subject
    shape = lambda rs: [(sorted(sig for sig, _ in v), o) for v, o in rs]
    if shape(a) != shape(b):
        raise Machinery("C06: the same case gave two different observations")
    outcomes = set()
    with ProcessPoolExecutor(max_workers=16, initializer=_init, initargs=(VB_PATH, VBSEQ_PATH)) as ex:
        for (v, o), case in zip(ex.map(run_case, [(i, c, ctx.scratch) for i, c in enumerate(cs)], chunksize=32), cs):
            outcomes.add(o)
            for sig, what in v:
                res.violation(sig, what, {"case": case})
    nontrivial = sum(1 for c in cs if (c["kind"] == "platform-env" and c["entries"]) or c["kind"] == "toml" or (c["kind"] == "target" and any(x != 0 for x in c["values"]))
                     or c["kind"] == "dir-forms" or (c["kind"] == "sequence" and len({tuple(x[:2]) for x in c["symbols"]}) > 1))
    res.cov("in_process_sequences", sum(1 for c in cs if c["kind"] == "sequence"))
    res.cov("evaluations", len(cs))
    res.cov("distinct_nontrivial", nontrivial)
    res.cov("distinct_outcomes", sorted(outcomes))
    res.cov("determinism_replays", 6)
    res.cov("rule", "platform env (each name also set, differently, in the process's own environment): all sets of <=2 (thorough: <=3 over a reduced kind set) entries with distinct names over 8 names (dots, leading dots, space, '=', non-ASCII, non-UTF-8) x 9 kinds (4 file contents, directory, symlink to file/dir, dangling, non-UTF-8 content); env/platform dir missing; values of 2^k-1, 2^k, 2^k+1 bytes for k in {12,16,17,20}; target: every present/absent x value combination of the five CNB_TARGET_* variables (quick: <=2 non-default) over values {linux, '', 'a b', non-UTF-8, windows, a value in double quotes, a value padded with white space}; TOML: every value kind (18 strings, ints incl. extremes, floats incl. inf/nan/-0, bools, 4 datetime kinds, arrays/tables depth 2) in plan entry metadata (plans of 0, 1, 2, 3 and 5 entries, neighbours sharing a name and differing in metadata), store and descriptor metadata, and the plan and the store handed over as a FIFO (reported size 0; the descriptor is legitimately read more than once; one short and one 70 kB document); all through the real detect/build runtime; directory spellings: layers / platform / buildpack directory each given plain, through a symlink, relative to the working directory, or with redundant segments (4^3 build + 4^2 detect cases), the context must name them as supplied and still find env, store and descriptor; in-process sequences: every sequence of 2..3 (thorough: ..4) programmatic libcnb_runtime_detect/libcnb_runtime_build calls in ONE process over 12 symbols (2 worlds x 3 content variants of descriptor, platform env, plan, store and target variables, one of them with the descriptor removed, x 2 phases), each step (result and context handed to the buildpack code; the files it leaves are compared by C05) compared with the same invocation run alone in a fresh process. non-trivial = case with at least one non-default input")
    res.cov("exhaustive", True)
    res.sample(cs[3])
    res.sample(cs[len(cs) // 2])
    res.sample(cs[-3])
    res.assume("TOML text is produced by an independent emitter (checks/tomlgen.py) in inline form; the dump is written by the harness buildpack from public context fields")
    return res.done()


def _init(vb, vbseq):
    global VB_PATH, VBSEQ_PATH
    VB_PATH = vb
    VBSEQ_PATH = vbseq
