"""Shared helpers for the Python-orchestrated checks."""
import json
import os
import shutil
import subprocess
import time

VERIF = os.path.dirname(os.path.dirname(os.path.abspath(__file__)))
TARGET = os.path.join(VERIF, "target", "release")


class Machinery(Exception):
    pass


class Ctx:
    def __init__(self, pid, tier, seed, replay):
        self.pid, self.tier, self.seed, self.replay = pid, tier, seed, replay
        self.t0 = time.time()
        self.scratch = f"/dev/shm/verif-py-{os.getpid()}"
        shutil.rmtree(self.scratch, ignore_errors=True)
        os.makedirs(self.scratch)

    @property
    def thorough(self):
        return self.tier == "thorough"

    def cleanup(self):
        subprocess.run(["chmod", "-R", "u+rwx", self.scratch], stderr=subprocess.DEVNULL)
        shutil.rmtree(self.scratch, ignore_errors=True)


class Result:
    """Collects coverage and violations in the same shape the Rust explorers emit."""

    def __init__(self, ctx, level):
        self.ctx = ctx
        self.level = level
        self.coverage = {"samples": []}
        self.assumptions = []
        self.violations = []
        self.sigs = set()

    def cov(self, k, v):
        self.coverage[k] = v

    def add(self, k, n=1):
        self.coverage[k] = self.coverage.get(k, 0) + n

    def sample(self, v):
        if len(self.coverage["samples"]) < 8:
            self.coverage["samples"].append(v)

    def assume(self, s):
        self.assumptions.append(s)

    def violation(self, signature, what, replay):
        self.sigs.add(signature)
        n = sum(1 for v in self.violations if v["signature"] == signature)
        if n < 3 and len(self.violations) < 60:
            self.violations.append({"signature": signature, "what": what, "replay": replay})

    def done(self):
        self.coverage["violation_signatures"] = sorted(self.sigs)
        self.ctx.cleanup()
        return {
            "level": self.level,
            "coverage": self.coverage,
            "assumptions": self.assumptions,
            "violations": self.violations,
        }


def run_json(cmd, **kw):
    r = subprocess.run(cmd, stdout=subprocess.PIPE, **kw)
    return r.returncode, r.stdout
