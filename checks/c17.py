"""C17 — configuration reaches pack/docker completely and unambiguously: bounded-exhaustive
build/container configurations through the real TestRunner; logged argv decoded by the reference
grammars (trcommon.decode) and compared with the configuration."""
import itertools
import json
import os
import shutil
from concurrent.futures import ProcessPoolExecutor

from common import Result, Machinery
from trcommon import run_scenario, decode, ParseError, RUNNER, FAKECLI, FIXTURE_FILES

T = ["v", "", "-x", "--rm", "a b", "k=v", "a=b=c", "é😀", "$(x)", "'q'"]
TNE = [t for t in T if t != ""]
PATHS = ["/a", "/a b", "/x=y", "/é"]
PORTS = [80, 8080, 8081, 65535]  # two neighbours: no option may stand for a range


# variables that are set in the environment of the test process itself (a developer machine behind a
# proxy): only what the configuration names may reach pack / docker, and with the configured value
HOST_ENV = {"HTTPS_PROXY": "http://host-proxy:1", "https_proxy": "http://host-proxy:2", "HTTP_PROXY": "http://host-proxy:3", "http_proxy": "http://host-proxy:4",
            "NO_PROXY": "host.example", "no_proxy": "host.example", "DOCKER_HOST": "unix:///host.sock", "CNB_PLATFORM_API": "0.13", "K": "host-value-of-K"}


def env_maps():
    out = [[]]
    for k in ("HTTPS_PROXY", "no_proxy", "DOCKER_HOST"):
        out.append([[k, "configured"]])
    out.append([["HTTPS_PROXY", "configured"], ["HTTP_PROXY", ""]])
    for v in T:
        out.append([["K", v]])
    # a key configured twice (env, then envs): the later value is the configuration
    out.append([["K", "first"], ["K", "second"], ["K2", "x"]])
    # values of 40 kB (beyond any "small argument" threshold), one of them with line breaks inside and at the end
    out.append([["K", "x" * 40000]])
    out.append([["K", "{\n" + "  \"k\": 1,\n" * 4000 + "}\r\n"], ["AFTER", "a"]])
    for v1, v2 in itertools.product(T, repeat=2):
        out.append([["K", v1], ["K2", v2]])
    return out


def build_field_domains():
    # an explicitly empty list: no --buildpack at all (the builder's own order)
    # references spelled like paths that exist below the crate root (and the default "some/bp", which does too)
    bps = [[]] + [["fixture"], ["."], [".."], ["fixture/file.txt"], ["some/bp", "./fixture/sub"], ["some"]] + [[a] for a in TNE] + [[a, b] for a, b in itertools.product(TNE[:5], repeat=2)] + [[a, b, c] for a, b, c in itertools.product(TNE[:3], repeat=3)]
    return {"builder": TNE, "env": env_maps(), "buildpacks": bps, "app_dir": ["fixture", "ABS", "fixture/", "./fixture", "SYMLINK", "LINKDOTDOT", "LINKDOTDOT+PRE", "INTMP", "INTMP+PRE"], "preprocessor": [False, True]}


def container_field_domains():
    cmds = [None] + [[a] for a in T] + [[a, b] for a, b in itertools.product(T, repeat=2)]
    ports = [list(c) for n in range(len(PORTS) + 1) for c in itertools.combinations(PORTS, n)]
    mounts = [[]] + [[[s, t]] for s, t in itertools.product(PATHS, repeat=2)] + [[[PATHS[0], t], [PATHS[1], u]] for t, u in itertools.product(PATHS, repeat=2)]
    # sources that exist: a directory, a symlink to it, the same directory through a redundant path
    # (ROOT is replaced by the scenario's scratch root): each configured mount must arrive as written
    real = [[["ROOT/mnt/dir1", "/t1"]], [["ROOT/mnt/link1", "/t1"]], [["ROOT/mnt/dir1", "/t1"], ["ROOT/mnt/link1", "/t2"]],
            [["ROOT/mnt/dir1", "/t1"], ["ROOT/mnt/./dir1/../dir1", "/t2"], ["ROOT/mnt/link1", "/t3"]]]
    # the CNB launcher as entrypoint (what every libcnb-test user writes), also with one-element commands
    return {"entrypoint": [None] + T + ["launcher"], "command": cmds, "env": env_maps(), "ports": ports, "mounts": mounts + real}


BUILD_DEFAULT = {"builder": "b:1", "env": [], "buildpacks": ["some/bp"], "app_dir": "fixture", "preprocessor": False}
CONT_DEFAULT = {"entrypoint": None, "command": None, "env": [], "ports": [], "mounts": []}


def configs(thorough):
    out = []
    bd, cd = build_field_domains(), container_field_domains()
    for f, dom in bd.items():
        for v in dom:
            out.append((dict(BUILD_DEFAULT, **{f: v}), dict(CONT_DEFAULT)))
    for f, dom in cd.items():
        for v in dom:
            out.append((dict(BUILD_DEFAULT), dict(CONT_DEFAULT, **{f: v})))
    # the launcher entrypoint with commands of one and two elements (the usual way to start a process type)
    for cmd in (["web"], ["echo hi"], ["a", "b"], ["-c"]):
        out.append((dict(BUILD_DEFAULT), dict(CONT_DEFAULT, entrypoint="launcher", command=cmd)))
    if thorough:
        # all pairs of fields over thinned domains
        fields = [("b", f, dom) for f, dom in bd.items()] + [("c", f, dom) for f, dom in cd.items()]
        for (s1, f1, d1), (s2, f2, d2) in itertools.combinations(fields, 2):
            for v1 in d1[::3][:12]:
                for v2 in d2[::3][:12]:
                    b, c = dict(BUILD_DEFAULT), dict(CONT_DEFAULT)
                    (b if s1 == "b" else c)[f1] = v1
                    (b if s2 == "b" else c)[f2] = v2
                    out.append((b, c))
    return out


DECOY_FILES = {"decoy.txt": "not the configured app"}


def special_layout(kind):
    """app directories whose path needs the file system to be understood:
    SYMLINK: crate/app-link -> fixture; LINKDOTDOT: crate/links/current/../app where
    crate/links/current -> <root>/store/v1/inner, so the path denotes <root>/store/v1/app (a copy of
    the fixture) while a lexical clean-up would give the decoy crate/links/app"""
    def layout(root):
        crate = os.path.join(root, "crate")
        os.makedirs(os.path.join(root, "mnt", "dir1"))
        os.symlink("dir1", os.path.join(root, "mnt", "link1"))
        if kind is None:
            return
        if kind == "SYMLINK":
            os.symlink(os.path.join(crate, "fixture"), os.path.join(crate, "app-link"))
        elif kind == "INTMP":
            # an app directory generated below the system temp dir (TMPDIR of the run)
            shutil.copytree(os.path.join(crate, "fixture"), os.path.join(root, "tmp", "generated-app"))
        else:
            os.makedirs(os.path.join(root, "store", "v1", "inner"))
            shutil.copytree(os.path.join(crate, "fixture"), os.path.join(root, "store", "v1", "app"))
            os.makedirs(os.path.join(crate, "links", "app"))
            for rel, data in DECOY_FILES.items():
                open(os.path.join(crate, "links", "app", rel), "w").write(data)
            os.symlink(os.path.join(root, "store", "v1", "inner"), os.path.join(crate, "links", "current"))
    return layout


def run_cfg(arg):
    idx, (b, c), scratch = arg
    root = os.path.join(scratch, f"c17-{os.getpid()}-{idx}")
    b2 = dict(b)
    layout = special_layout(None)
    app_real = os.path.join(root, "crate", "fixture")
    c = dict(c, mounts=[[s_.replace("ROOT", root), t_] for s_, t_ in c["mounts"]])
    if b2["app_dir"] == "ABS":
        b2["app_dir"] = os.path.join(root, "crate", "fixture")
    elif b2["app_dir"] == "SYMLINK":
        b2["app_dir"] = "app-link"
        layout = special_layout("SYMLINK")
    elif b2["app_dir"].startswith("INTMP"):
        if b2["app_dir"].endswith("+PRE"):
            b2["preprocessor"] = True
        b2["app_dir"] = os.path.join(root, "tmp", "generated-app")
        layout = special_layout("INTMP")
        app_real = b2["app_dir"]
    elif b2["app_dir"].startswith("LINKDOTDOT"):
        if b2["app_dir"].endswith("+PRE"):
            b2["preprocessor"] = True
        b2["app_dir"] = "links/current/../app"
        layout = special_layout("LINKDOTDOT")
        app_real = os.path.join(root, "store", "v1", "app")
    sc = {"root": {"cfg": b2, "body": [{"op": "container", "cfg": c, "body": []}]}, "panic_at": None}

    def post(root_, res):
        # resolve what pack was given while the world still exists
        res["path_real"] = [os.path.realpath(e["argv"][e["argv"].index("--path") + 1]) for e in res["log"] if e["prog"] == "pack" and "--path" in e["argv"]]
        res["app_real"] = os.path.realpath(app_real)
        res["app_real_listing"] = {os.path.relpath(os.path.join(dp, f), app_real): open(os.path.join(dp, f)).read() for dp, dn, fn in os.walk(app_real) for f in fn}
        res["app_real_listing"].update({os.path.relpath(os.path.join(dp, f), app_real) + "#exec": "yes" for dp, dn, fn in os.walk(app_real) for f in fn if os.stat(os.path.join(dp, f)).st_mode & 0o100})
        res["preprocessor_effective"] = b2["preprocessor"]
        res["mounts_effective"] = c["mounts"]

    r = run_scenario(root, sc, layout=layout, post=post, host_env=HOST_ENV)
    r["root"] = root
    shutil.rmtree(root, ignore_errors=True)
    return r


def judge(r, b, c):
    v = []
    dec = []
    for e in r["log"]:
        try:
            d = decode(e)
            d["entry"] = e
            dec.append(d)
        except ParseError as ex:
            v.append(("argv-not-parseable", f"{e['prog']} {e['argv']}: {ex}"))
    if r["outcome"] != "ok":
        v.append(("run-failed", f"scenario ended with {r['outcome']}: {r.get('message', '')[:200]}"))
    builds = [d for d in dec if d["kind"] == "pack-build"]
    if len(builds) != 1:
        v.append(("pack-build-count", f"{len(builds)} pack build invocations"))
        return v
    pb = builds[0]
    o = pb["opts"]
    get = lambda k: [val for kk, val in o if kk == k]
    if get("builder") != [b["builder"]]:
        v.append(("builder", f"pack --builder {get('builder')}, configured {b['builder']!r}"))
    if get("buildpack") != b["buildpacks"]:
        v.append(("buildpacks", f"pack --buildpack {get('buildpack')}, configured {b['buildpacks']}"))
    envs = [tuple(x.split("=", 1)) if "=" in x else (x, None) for x in get("env")]
    if sorted(envs) != sorted(dict((k, val) for k, val in b["env"]).items()):
        v.append(("build-env", f"pack --env decodes to {sorted(envs)}, configured {b['env']}"))
    fixture = r["app_real"]
    path = get("path")
    if len(path) != 1:
        v.append(("app-path", f"--path given {len(path)} times"))
    elif not r["preprocessor_effective"]:
        if r["path_real"] != [fixture] or pb["entry"]["path_listing"] != FIXTURE_FILES:
            v.append(("app-path", f"--path {path[0]!r} resolves to {r['path_real']} holding {pb['entry']['path_listing']}, the configured app directory is {fixture}"))
    else:
        want = dict(FIXTURE_FILES, **{"added-by-preprocessor": "x", "file.txt": "changed"})
        if r["path_real"] == [fixture]:
            v.append(("preprocessor-on-fixture", "with a preprocessor pack was pointed at the fixture itself"))
        elif pb["entry"]["path_listing"] != want:
            v.append(("preprocessed-app-content", f"app dir given to pack holds {pb['entry']['path_listing']}, expected {want}"))
    if not r["fixture_same"] or r["app_real_listing"] != FIXTURE_FILES:
        v.append(("fixture-modified", f"the configured app directory was modified: it now holds {r['app_real_listing']}"))
    runs = [d for d in dec if d["kind"] == "run"]
    if len(runs) != 1:
        v.append(("docker-run-count", f"{len(runs)} docker run invocations"))
        return v
    dr = runs[0]
    ro = dr["opts"]
    rget = lambda k: [val for kk, val in ro if kk == k]
    if dr["image"] != pb["image"]:
        v.append(("run-image", f"docker run image {dr['image']!r}, built image {pb['image']!r}"))
    if rget("entrypoint") != ([] if c["entrypoint"] is None else [c["entrypoint"]]):
        v.append(("entrypoint", f"docker run --entrypoint {rget('entrypoint')}, configured {c['entrypoint']!r}"))
    if dr["command"] != (c["command"] or []):
        v.append(("command", f"docker run command {dr['command']}, configured {c['command']}"))
    envs = [tuple(x.split("=", 1)) if "=" in x else (x, None) for x in rget("env")]
    if sorted(envs) != sorted(dict((k, val) for k, val in c["env"]).items()):
        v.append(("container-env", f"docker run --env decodes to {sorted(envs)}, configured {c['env']}"))
    ports = []
    for p in rget("publish"):
        parts = p.split(":")
        ports.append(int(parts[-1]) if parts[-1].isdigit() else p)
    if sorted(map(str, ports)) != sorted(map(str, c["ports"])) or len(ports) != len(set(map(str, ports))):
        v.append(("ports", f"docker run --publish {rget('publish')}, configured {c['ports']}"))
    mounts = []
    for m in rget("mount"):
        fields = dict(f.split("=", 1) if "=" in f else (f, "") for f in m.split(","))
        mounts.append((fields.get("type"), fields.get("source"), fields.get("target")))
    if sorted(mounts) != sorted(("bind", s, t) for s, t in dict((s, t) for s, t in r["mounts_effective"]).items()):
        v.append(("mounts", f"docker run --mount decodes to {mounts}, configured {r['mounts_effective']}".replace(r["root"], "ROOT")))
    if not dr["detach"] or not dr["name"]:
        v.append(("run-flags", "docker run without --detach/--name"))
    extra = [k for k, _ in ro if k not in ("name", "detach", "platform", "entrypoint", "env", "publish", "mount")]
    if extra:
        v.append(("unexpected-option", f"docker run options {extra}"))
    return v


def run_rebuild(arg):
    idx, (b1, b2), scratch = arg
    root = os.path.join(scratch, f"c17r-{os.getpid()}-{idx}")
    sc = {"root": {"cfg": b1, "body": [{"op": "sbom"}, {"op": "rebuild", "cfg": b2, "body": [{"op": "sbom"}]}]}, "panic_at": None}
    r = run_scenario(root, sc)
    r["root"] = root
    shutil.rmtree(root, ignore_errors=True)
    return r


def judge_rebuild(r, b1, b2):
    v = []
    dec = []
    for e in r["log"]:
        try:
            d = decode(e)
            d["entry"] = e
            dec.append(d)
        except ParseError as ex:
            v.append(("argv-not-parseable", f"{e['prog']} {e['argv']}: {ex}"))
    if r["outcome"] != "ok":
        v.append(("run-failed", f"scenario ended with {r['outcome']}: {r.get('message', '')[:200]}"))
    builds = [d for d in dec if d["kind"] == "pack-build"]
    if len(builds) != 2:
        v.append(("pack-build-count", f"{len(builds)} pack build invocations for build + rebuild"))
        return v
    if builds[0]["image"] != builds[1]["image"]:
        v.append(("rebuild-image", f"rebuild used image {builds[1]['image']!r}, the build {builds[0]['image']!r}"))
    for which, pb, b in (("build", builds[0], b1), ("rebuild", builds[1], b2)):
        get = lambda k: [val for kk, val in pb["opts"] if kk == k]
        if get("builder") != [b["builder"]]:
            v.append((f"{which}-builder", f"{which}: pack --builder {get('builder')}, configured {b['builder']!r}"))
        if get("buildpack") != b["buildpacks"]:
            v.append((f"{which}-buildpacks", f"{which}: pack --buildpack {get('buildpack')}, configured {b['buildpacks']}"))
        envs = sorted(tuple(x.split("=", 1)) if "=" in x else (x, None) for x in get("env"))
        if envs != sorted((k, val) for k, val in b["env"]):
            v.append((f"{which}-env", f"{which}: pack --env decodes to {envs}, configured {b['env']}"))
        # what pack was pointed at holds exactly this build's view of the app
        listing = pb["entry"]["path_listing"]
        want = {False: FIXTURE_FILES, True: dict(FIXTURE_FILES, **{"added-by-preprocessor": "x", "file.txt": "changed"}), "A": dict(FIXTURE_FILES, **{"added-by-preprocessor": "x", "file.txt": "changed"}),
                "B": dict(FIXTURE_FILES, **{"added-by-B": "y", "file.txt": "changed-by-B"})}[b["preprocessor"]]
        if listing != want:
            v.append((f"{which}-app-content", f"{which}: the app directory given to pack holds {listing}, this build's configuration (preprocessor {b['preprocessor']!r}) gives {want}"))
        caches = sorted(get("cache"))
        if caches != sorted(c for c in [f"type=build;format=volume;name={pb['image']}.build-cache", f"type=launch;format=volume;name={pb['image']}.launch-cache"]):
            v.append((f"{which}-cache-volumes", f"{which}: pack --cache {caches}"))
    sboms = [d for d in dec if d["kind"] == "pack-sbom"]
    if len(sboms) != 2:
        v.append(("sbom-download-count", f"{len(sboms)} pack sbom download invocations"))
    for sd in sboms:
        outdir = [val for kk, val in sd["opts"] if kk == "output-dir"]
        if sd["image"] != builds[0]["image"] or len(outdir) != 1 or not outdir[0].startswith(os.path.join(r["root"], "tmp")):
            v.append(("sbom-download-args", f"pack sbom download {sd['image']!r} --output-dir {outdir}"))
    return v


def run(ctx):
    res = Result(ctx, "exploration")
    for p in (RUNNER, FAKECLI):
        if not os.path.exists(p):
            raise Machinery(f"{p} not built")
    cfgs = configs(ctx.thorough)
    if ctx.replay:
        rp = json.load(open(ctx.replay))["replay"]
        if rp.get("packaging"):
            import c16
            c16.packaging_scenarios(ctx, res, mode="argv")
            return res.done()
        cfgs = [(rp["build"], rp["container"])]
    with ProcessPoolExecutor(max_workers=16) as ex:
        results = list(ex.map(run_cfg, [(i, c, ctx.scratch) for i, c in enumerate(cfgs)], chunksize=8))
    shapes = set()
    for (b, c), r in zip(cfgs, results):
        shapes.add(tuple(len(e["argv"]) for e in r["log"]))
        for sig, what in judge(r, b, c):
            if ctx.replay:
                print("DIFFERENCE:", what)
                for e in r["log"]:
                    print("  ", e["prog"], e["argv"])
            res.violation(sig, f"build {b}, container {c}: {what}", {"build": b, "container": c})
    # build + rebuild with different configurations, SBOM download in both
    bd = build_field_domains()
    variants = [dict(BUILD_DEFAULT, builder=x) for x in bd["builder"][:4]] + [dict(BUILD_DEFAULT, env=x) for x in bd["env"][1:12:2]] + [dict(BUILD_DEFAULT, buildpacks=x) for x in bd["buildpacks"][::9][:6]]
    pairs = [(a, b) for a in variants[::2] for b in variants[1::2]] if ctx.thorough else list(zip(variants, variants[1:] + variants[:1]))
    # every pair of preprocessor settings (none, A, B) for build and rebuild
    for p1, p2 in itertools.product([False, "A", "B"], repeat=2):
        pairs.append((dict(BUILD_DEFAULT, preprocessor=p1), dict(BUILD_DEFAULT, preprocessor=p2)))
    if ctx.replay:
        pairs = []
    with ProcessPoolExecutor(max_workers=16) as ex:
        rres = list(ex.map(run_rebuild, [(i, p, ctx.scratch) for i, p in enumerate(pairs)], chunksize=4))
    for (b1, b2), r in zip(pairs, rres):
        for sig, what in judge_rebuild(r, b1, b2):
            res.violation("rebuild:" + sig, f"build {b1} then rebuild {b2}: {what}", {"build": b1, "rebuild": b2})
    # buildpack references that are packaged on the fly (CurrentCrate / WorkspaceBuildpack, also with
    # overlapping dependency closures): one pack build, every reference in order, each directory complete
    pk = 0
    if not ctx.replay:
        import c16
        pk = c16.packaging_scenarios(ctx, res, mode="argv")
    res.cov("rebuild_pairs", len(pairs))
    res.cov("packaged_reference_configurations", pk)
    res.cov("evaluations", len(cfgs) + len(pairs) + pk)
    res.cov("distinct_nontrivial", len(cfgs) - 2)
    res.cov("distinct_outcomes", len(shapes))
    res.cov("rule", "configurations = each field varied over its full domain against defaults (builder over 9 strings; env maps of <=2 keys x 10 value strings (plus two 40 kB values, one multi-line) incl. '', leading dashes, spaces, '=', Unicode, shell metacharacters, and keys that are also set (differently) in the test process's own environment (proxy variables, DOCKER_HOST, K); buildpack lists of length <=3 plus references spelled like paths that exist below the crate root; relative/absolute app dir, also one below the run's temp dir; the app holds an executable file whose permission bits must reach pack (also in the preprocessed private copy); preprocessor; entrypoint None+10 strings; commands of <=2 elements; all port subsets of {80,8080,8081,65535}; <=2 bind mounts over 4 synthetic paths plus existing sources: a directory, a symlink to it and a redundant spelling of it, up to 3 at once); build+rebuild pairs incl. every pair of preprocessor settings {none, A, B} with the app content pack saw judged per build and, in thorough, all pairs of fields over thinned domains; each run through the real TestRunner with stand-in CLIs; plus 5 sets of on-the-fly packaged references (current crate, workspace buildpacks, a composite, overlapping dependency closures) x both expectations in a really compiled generated workspace; the logged argv is decoded with reference parsers and compared with the configuration; non-trivial = non-default configurations")
    res.cov("exhaustive", True)
    for i in (3, len(cfgs) // 2, len(cfgs) - 1):
        if 0 <= i < len(cfgs):
            res.sample({"build": cfgs[i][0], "container": cfgs[i][1]})
    res.assume("'=' in env keys and ',' or '\"' in mount paths are outside the alphabet (docker's own CSV/env syntax); empty buildpack references and empty builder names are not enumerated")
    return res.done()
