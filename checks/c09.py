"""C09 — identifier/version grammars. Run-time and deserialisation paths are explored in Rust
(data-mc c09); this driver adds the compile-time literal macros: one generated crate with one
macro invocation per string, `cargo check --message-format=json`, rejected call sites recovered
from the diagnostics' macro expansion chains, and compares the three acceptance paths."""
import json
import os
import shutil
import subprocess
import sys

VERIF = os.path.dirname(os.path.dirname(os.path.abspath(__file__)))
CRATE = os.path.join(VERIF, "target", "c09-macros")
KINDS = ["layer_name", "process_type", "buildpack_id", "exec_d_program_output_key"]


def rust_literal(s):
    out = ['"']
    for ch in s:
        o = ord(ch)
        if ch == '"':
            out.append('\\"')
        elif ch == "\\":
            out.append("\\\\")
        elif ch == "\n":
            out.append("\\n")
        elif o == 0:
            out.append("\\0")
        elif o < 0x20 or o == 0x7F:
            out.append("\\x%02x" % o)
        else:
            out.append(ch)
    out.append('"')
    return "".join(out)


def write_crate(lists):
    os.makedirs(os.path.join(CRATE, "src"), exist_ok=True)
    shutil.copy("/repo/Cargo.lock", os.path.join(CRATE, "Cargo.lock"))
    with open(os.path.join(CRATE, "Cargo.toml"), "w") as f:
        f.write('[package]\nname = "c09-macros"\nversion = "0.0.0"\nedition = "2024"\npublish = false\n\n[workspace]\n\n[dependencies]\nlibcnb-data = { path = "/repo/libcnb-data" }\n')
    with open(os.path.join(CRATE, "src", "lib.rs"), "w") as f:
        f.write("#![allow(unused, clippy::all)]\n" + "".join(f"pub mod {k};\n" for k in KINDS))
    for k in KINDS:
        with open(os.path.join(CRATE, "src", f"{k}.rs"), "w") as f:
            # line i+1 holds invocation i
            for i, (s, _ref, _rt) in enumerate(lists.get(k, [])):
                f.write(f"pub fn f{i}() {{ let _ = libcnb_data::{k}!({rust_literal(s)}); }}\n")


def cargo_check():
    env = dict(os.environ, CARGO_NET_OFFLINE="true", CARGO_TARGET_DIR=os.path.join(CRATE, "target"))
    r = subprocess.run(["cargo", "check", "--offline", "--message-format=json", "--quiet"], cwd=CRATE, env=env, stdout=subprocess.PIPE, stderr=subprocess.PIPE, text=True)
    rejected = {k: set() for k in KINDS}
    other_errors = []
    for line in r.stdout.splitlines():
        try:
            m = json.loads(line)
        except ValueError:
            continue
        if m.get("reason") != "compiler-message":
            continue
        msg = m["message"]
        if msg.get("level") != "error":
            continue
        site = None
        for sp in msg.get("spans", []):
            cur = sp
            while cur is not None:
                fn = cur.get("file_name", "")
                base = os.path.basename(fn)[:-3]
                if fn.startswith("src/") and base in KINDS:
                    site = (base, cur["line_start"] - 1)
                exp = cur.get("expansion")
                cur = exp["span"] if exp else None
        if site:
            rejected[site[0]].add(site[1])
        elif "aborting due to" not in msg.get("message", "") and "could not compile" not in msg.get("message", ""):
            other_errors.append(msg.get("message", "")[:200])
    return r.returncode, rejected, other_errors, r.stderr[-2000:]


def warm():
    write_crate({})
    rc, _, _, err = cargo_check()
    if rc != 0:
        print("c09 warm-up failed:", err)
        sys.exit(1)


def run(ctx):
    from common import Result, Machinery, TARGET
    export = os.path.join(ctx.scratch, "c09.export.json")
    out = os.path.join(ctx.scratch, "c09.out.json")
    r = subprocess.run([os.path.join(TARGET, "data-mc"), "c09", "--tier", ctx.tier, "--out", out, export])
    if not os.path.exists(out):
        raise Machinery("data-mc c09 produced no result")
    rust = json.load(open(out))
    res = Result(ctx, "exploration")
    res.coverage.update(rust["coverage"])
    res.coverage.setdefault("samples", [])
    res.assumptions = rust["assumptions"]
    for v in rust["violations"]:
        res.violation(v["signature"], v["what"], v["replay"])
    for s in rust["coverage"].get("violation_signatures", []):
        res.sigs.add(s)
    lists = json.load(open(export))
    write_crate(lists)
    rc, rejected, other, err = cargo_check()
    if other:
        raise Machinery(f"unexpected compiler errors in the macro crate: {other[:3]}")
    n = 0
    nrej = 0
    for k in KINDS:
        for i, (s, ref, rt) in enumerate(lists[k]):
            n += 1
            macro_ok = i not in rejected[k]
            nrej += 0 if macro_ok else 1
            if macro_ok != rt:
                res.violation(f"paths-disagree-macro:{k}", f"{k}!({s!r}) compile-time accepted={macro_ok} but run-time parse accepted={rt}", {"type": k, "string": s})
            if ref is not None and macro_ok != ref:
                res.violation(f"{'accepts-invalid' if macro_ok else 'rejects-valid'}:{k}", f"{k}!({s!r}) compile-time accepted={macro_ok}, the spec grammar says {ref}", {"type": k, "string": s})
    if n and nrej == 0:
        raise Machinery("macro crate: no invocation was rejected - diagnostics were not understood")
    if rc == 0 and nrej:
        raise Machinery("macro crate compiled although invocations were rejected")
    res.cov("macro_invocations", n)
    res.cov("macro_invocations_rejected", nrej)
    res.cov("evaluations", res.coverage.get("evaluations", 0) + n)
    res.cov("rule", res.coverage.get("rule", "") + "; compile-time path: one literal-macro invocation per string (length <= 3 quick / 4 thorough, plus reserved-word variants) in a generated crate checked with cargo check, accepted iff no error diagnostic expands from that call site; compared with the run-time verdict and the reference")
    res.sample({"macro": "buildpack_id!(\"sbom\")", "accepted": False})
    return res.done()


if __name__ == "__main__":
    if "--warm" in sys.argv:
        warm()
