"""C07 — written TOML decodes under an independent parser (tomllib) to the intended spec document.
Cases come from the Rust generator (real builders + real write_toml_file / fd 3 writer)."""
import json
import os
import subprocess
import tomllib

import tomlgen
from common import Result, Machinery, TARGET
from c06 import tuple_from_json


def wd_norm(x):
    # a missing working-dir and "." both denote the app directory
    return "<app>" if x in (None, ".") else x


def check(case):
    kind = case["kind"]
    text = case["toml"]
    if case["expect_error"]:
        if case["ser_error"] is None:
            return ("unrepresentable-value-written", f"{case['trace']}: a value TOML cannot represent was written as {text!r} instead of failing")
        return None
    if case["ser_error"] is not None or text is None:
        return (f"serialisation-error:{kind}", f"{case['trace']}: representable document failed to serialise: {case['ser_error']}")
    try:
        doc = tomllib.loads(text)
    except Exception as e:  # noqa
        return (f"invalid-toml:{kind}", f"{case['trace']}: libcnb wrote {text!r} which is not valid TOML 1.0: {e}")
    it = case["intended"]
    where = f"{case['trace']}: wrote {text!r}"
    if kind == "launch":
        allowed = {"processes", "labels", "slices"}
        if set(doc) - allowed:
            return ("launch:undefined-key", f"{where}: keys {set(doc) - allowed}")
        procs = doc.get("processes", [])
        if len(procs) != len(it["processes"]):
            return ("launch:process-count", f"{where}: {len(procs)} processes, intended {len(it['processes'])}")
        for g, w in zip(procs, it["processes"]):
            extra = set(g) - {"type", "command", "args", "default", "working-dir"}
            if extra:
                return ("launch:undefined-process-key", f"{where}: process keys {extra}")
            got = (g.get("type"), g.get("command"), g.get("args", []), g.get("default", False), wd_norm(g.get("working-dir")))
            want = (w["type"], w["command"], w["args"], w["default"], wd_norm(w["wd"]))
            if got != want:
                field = [n for n, a, b in zip(("type", "command", "args", "default", "working-dir"), got, want) if a != b][0]
                return (f"launch:process-{field}", f"{where}: process reads back as {got}, intended {want}")
        labels = [[l.get("key"), l.get("value")] for l in doc.get("labels", [])]
        if labels != it["labels"]:
            return ("launch:labels", f"{where}: labels {labels}, intended {it['labels']}")
        slices = [s.get("paths") for s in doc.get("slices", [])]
        if slices != it["slices"]:
            return ("launch:slices", f"{where}: slices {slices}, intended {it['slices']}")
    elif kind == "build_plan":
        if set(doc) - {"provides", "requires", "or"}:
            return ("plan:undefined-key", f"{where}: keys {set(doc)}")
        groups = [doc] + list(doc.get("or", []))
        want = it["groups"]
        # trailing/leading empty alternatives are part of what the builder was asked for
        if len(groups) != len(want):
            return ("plan:group-count", f"{where}: {len(groups)} alternatives, the builder calls describe {len(want)}")
        for gi, (g, w) in enumerate(zip(groups, want)):
            gp = [p.get("name") for p in g.get("provides", [])]
            if gp != w["provides"]:
                return ("plan:provides", f"{where}: alternative {gi} provides {gp}, intended {w['provides']}")
            gr = g.get("requires", [])
            if [r.get("name") for r in gr] != [r["name"] for r in w["requires"]]:
                return ("plan:requires", f"{where}: alternative {gi} requires {[r.get('name') for r in gr]}, intended {[r['name'] for r in w['requires']]}")
            for r, wr in zip(gr, w["requires"]):
                got_md = tomlgen.from_tomllib(r.get("metadata", {}))
                if not tomlgen.same(got_md, tuple_from_json(wr["metadata"])):
                    return ("plan:metadata", f"{where}: requires metadata {got_md}, intended {wr['metadata']}")
    elif kind == "layer_metadata":
        if set(doc) - {"types", "metadata"}:
            return ("layer:undefined-key", f"{where}: keys {set(doc)}")
        t = doc.get("types")
        want_t = it["types"]
        if want_t is None:
            if t is not None:
                return ("layer:types-invented", f"{where}: types {t} although none were set")
        else:
            got_t = {k: (t or {}).get(k, False) for k in ("launch", "build", "cache")}
            if t is None or got_t != want_t or set(t) - {"launch", "build", "cache"}:
                return ("layer:types", f"{where}: types {t}, intended {want_t}")
        if not tomlgen.same(tomlgen.from_tomllib(doc.get("metadata", {})), tuple_from_json(it["metadata"])):
            return ("layer:metadata", f"{where}: metadata {doc.get('metadata')}, intended {it['metadata']}")
    elif kind == "store":
        if set(doc) - {"metadata"}:
            return ("store:undefined-key", f"{where}")
        if not tomlgen.same(tomlgen.from_tomllib(doc.get("metadata", {})), tuple_from_json(it["metadata"])):
            return ("store:metadata", f"{where}: metadata {doc.get('metadata')}, intended {it['metadata']}")
    elif kind == "execd":
        if doc != it:
            return ("execd:content", f"{where}: decodes to {doc}, intended {it}")
    elif kind == "package_descriptor":
        got = (doc.get("buildpack", {}).get("uri"), [d.get("uri") for d in doc.get("dependencies", [])], doc.get("platform", {}).get("os", "linux"))
        want = (it["buildpack"], it["dependencies"], it["os"])
        if got != want:
            return ("package:content", f"{where}: decodes to {got}, intended {want}")
    if case["readback"] not in ("ok", "n/a"):
        return (f"readback:{kind}", f"{where}: libcnb's own reader gives {case['readback']}")
    return None


def run(ctx):
    res = Result(ctx, "model_checking")
    gen = os.path.join(TARGET, "data-mc")
    out = os.path.join(ctx.scratch, "c07.jsonl")
    r = subprocess.run([gen, "c07gen", "--tier", ctx.tier, "--out", out])
    if r.returncode != 0 or not os.path.exists(out):
        raise Machinery("c07 generator failed")
    n = 0
    kinds = {}
    docs = set()
    if ctx.replay:
        want_trace = json.load(open(ctx.replay))["replay"]["trace"]
    for line in open(out):
        case = json.loads(line)
        if ctx.replay and case["trace"] != want_trace:
            continue
        n += 1
        kinds[case["kind"]] = kinds.get(case["kind"], 0) + 1
        docs.add(case["toml"])
        v = check(case)
        if v:
            if ctx.replay:
                print("DIFFERENCE:", v[1])
            res.violation(v[0], v[1], {"trace": case["trace"], "kind": case["kind"]})
        if n in (5, 4000, 9000):
            res.sample({"builder_calls": case["trace"], "written": case["toml"]})
    res.cov("states", len(docs))
    res.cov("transitions", n)
    res.cov("traces_validated_against_impl", n)
    res.cov("evaluations", n)
    res.cov("distinct_nontrivial", len(docs))
    res.cov("cases_by_kind", kinds)
    res.cov("rule", "states = distinct documents written; transitions = builder call sequences / constructed values serialised by the real writer: every LaunchBuilder call sequence over {4 process shapes, 2 labels, 2 slices} to the depth bound, every BuildPlanBuilder sequence over {provides a, provides 'b c', requires, requires+metadata (set twice, the last value counts), or} to the depth bound (incl. leading/trailing/double or), 20 payload strings substituted at every string position one at a time, every TOML value kind as metadata (plan, layer metadata x types, store), exec.d key/value sets through fd 3, package descriptors over URI kinds")
    res.cov("bound", {"launch_depth": 5 if ctx.thorough else 4, "plan_depth": 7 if ctx.thorough else 5})
    res.cov("exhaustive", True)
    res.assume("tomllib (CPython) is the independent TOML 1.0 reader; the intended document is recorded from builder inputs")
    res.assume("a missing working-dir and '.' are the same document (both mean the app directory)")
    return res.done()
