"""C15 — `cargo libcnb package` writes complete buildpack directories, also over stale output.
Subject: the real cargo-libcnb executable built from /repo. Exploration over generated workspaces
x invocations, and fault enumeration: two-run histories with EVERY crash point of the first run
(strace SIGKILL injection before each mutating call under the package directory) and pre-seeded
foreign content; the second run must give exactly the result of packaging into an empty directory."""
import itertools
import json
import os
import re
import shutil
import subprocess
import tomllib
from concurrent.futures import ProcessPoolExecutor

from common import Result, Machinery, VERIF
from c12 import snapshot, parse_log, SYSCALLS

BUILD_DIR = os.path.join(VERIF, "target", "c15-build")
PACKAGER = os.path.join(BUILD_DIR, "debug", "cargo-libcnb")
SHIM = os.path.join(VERIF, "target", "libdetrand.so")
TRIPLE = "x86_64-unknown-linux-gnu"
CARGO = shutil.which("cargo") or "/root/.cargo/bin/cargo"


def build_packager():
    env = dict(os.environ, CARGO_NET_OFFLINE="true", CARGO_TARGET_DIR=BUILD_DIR)
    r = subprocess.run(["cargo", "build", "-p", "libcnb-cargo", "--offline", "--quiet", "--manifest-path", "/repo/Cargo.toml"], env=env, stdout=subprocess.PIPE, stderr=subprocess.STDOUT, text=True)
    if r.returncode != 0:
        raise Machinery("building cargo-libcnb from /repo failed:\n" + r.stdout[-3000:])


# ---- workspace specifications -------------------------------------------------------------
# buildpack: {"id", "dir", "kind": "libcnb"|"composite"|"other", "bins": [...] (first = main unless ambiguous), "deps": [uri...]}
W1 = {"name": "w1", "ignore": "packaged/\n", "package_dir": None, "buildpacks": [
    # both buildpacks have an additional binary target of the same name (different code): the
    # workspace's shared target directory holds only the one built last
    {"id": "verif/a", "dir": "buildpacks/a", "kind": "libcnb", "pkg": "bp-a", "bins": ["bp-a", "extra1"]},
    # a libcnb.rs buildpack that ships its own package.toml with a libcnb: dependency: packaging it
    # (also from its own directory) packages the dependency too; its packaged package.toml is the default one
    {"id": "verif/b", "dir": "buildpacks/b", "kind": "libcnb", "pkg": "bp-b", "bins": ["bp-b", "extra1"], "deps": ["libcnb:verif/a"]},
    {"id": "verif/meta", "dir": "meta/m", "kind": "composite", "platform": "windows", "deps": ["libcnb:verif/a", "libcnb:verif/b", "docker://docker.io/heroku/procfile-cnb:1.0"]},
    {"id": "verif/other", "dir": "other/o", "kind": "other"},
]}
W2 = {"name": "w2", "ignore": "out/\n", "package_dir": "out/pk", "buildpacks": [
    {"id": "verif/a", "dir": "a", "kind": "libcnb", "pkg": "bp-a", "bins": ["bp-a", "helper", "zz-tool"]},
    {"id": "verif/m1", "dir": "composites/m1", "kind": "composite", "deps": ["../../other/o", "libcnb:verif/a"]},
    {"id": "verif/m2", "dir": "composites/m2", "kind": "composite", "deps": ["libcnb:verif/m1", "urn:cnb:registry:x/y@1.0.0"]},
    # only path / registry dependencies, no libcnb: reference (packaged alone from its own directory, nothing else is packaged first)
    {"id": "verif/m3", "dir": "composites/m3", "kind": "composite", "deps": ["../../other/o", "./vendored/../vendored/x", "docker://docker.io/e/x:1"]},
    {"id": "verif/other", "dir": "other/o", "kind": "other"},
]}
W3 = {"name": "w3", "ignore": "packaged/\n", "package_dir": None, "buildpacks": [
    {"id": "verif/amb", "dir": "amb", "kind": "libcnb", "pkg": "amb", "bins": ["x", "y"], "ambiguous": True},
]}
W4 = {"name": "w4", "ignore": "packaged/\n", "package_dir": None, "buildpacks": [
    {"id": "solo", "dir": "solo", "kind": "libcnb", "pkg": "solo", "bins": ["solo"]},
]}
W5 = {"name": "w5", "ignore": "packaged/\n", "package_dir": None, "buildpacks": [
    {"id": "verif/a", "dir": "x/a", "kind": "libcnb", "pkg": "bp-a", "bins": ["bp-a"]},
    {"id": "verif/b", "dir": "x/b", "kind": "libcnb", "pkg": "bp-b", "bins": ["bp-b"]},
    {"id": "verif/c", "dir": "x/c", "kind": "libcnb", "pkg": "bp-c", "bins": ["bp-c", "c-extra"]},
    {"id": "verif/m", "dir": "m", "kind": "composite", "deps": ["libcnb:verif/c", "./../x/../other"]},
]}


# nested buildpack directories: the workspace root is itself a (composite) buildpack
W6 = {"name": "w6", "ignore": "packaged/\n", "package_dir": None, "buildpacks": [
    {"id": "verif/root-meta", "dir": "", "kind": "composite", "deps": ["libcnb:verif/inner"]},
    # with a build script, an integration test and an example next to its one binary target: none of them is a buildpack binary
    {"id": "verif/inner", "dir": "nested/inner", "kind": "libcnb", "pkg": "inner", "bins": ["inner"], "extras": True},
    # its only binary target is not named after the package (src/bin/entry.rs, no src/main.rs): it is the main binary, and nothing else
    {"id": "verif/second", "dir": "nested/second", "kind": "libcnb", "pkg": "second", "bins": ["entry"], "no_main_rs": True},
]}


def bp_toml(bp):
    head = f'api = "0.10"\n\n[buildpack]\nid = "{bp["id"]}"\nversion = "0.1.0"\n# marker {bp["dir"]}\n'
    if bp["kind"] == "composite":
        groups = "".join(f'\n[[order.group]]\nid = "{d.split(":", 1)[1] if d.startswith("libcnb:") else "ext/" + str(i)}"\nversion = "0.1.0"\n' for i, d in enumerate(bp["deps"]))
        return head + "\n[[order]]\n" + groups
    return head + '\n[[targets]]\nos = "linux"\n'


def generate(ws, root):
    os.makedirs(root)
    members = [bp["dir"] for bp in ws["buildpacks"] if bp["kind"] == "libcnb"]
    open(os.path.join(root, "Cargo.toml"), "w").write("[workspace]\nresolver = \"2\"\nmembers = [%s]\n" % ", ".join(f'"{m}"' for m in members))
    # the documented setup: every output directory is covered by an ignore file
    open(os.path.join(root, ".ignore"), "w").write(ws["ignore"] + "rel-out/\ndist/\n")
    for bp in ws["buildpacks"]:
        d = os.path.join(root, bp["dir"]) if bp["dir"] else root
        os.makedirs(d, exist_ok=True)
        open(os.path.join(d, "buildpack.toml"), "w").write(bp_toml(bp))
        if bp["kind"] == "libcnb":
            open(os.path.join(d, "Cargo.toml"), "w").write(f'[package]\nname = "{bp["pkg"]}"\nversion = "0.1.0"\nedition = "2021"\n')
            os.makedirs(os.path.join(d, "src", "bin"))
            for i, b in enumerate(bp["bins"]):
                body = f'fn main() {{ println!("{bp["id"]}:{b}"); }}\n'
                if i == 0 and not bp.get("ambiguous") and not bp.get("no_main_rs"):
                    open(os.path.join(d, "src", "main.rs"), "w").write(body)
                else:
                    open(os.path.join(d, "src", "bin", f"{b}.rs"), "w").write(body)
            if bp.get("extras"):
                open(os.path.join(d, "build.rs"), "w").write("fn main() {}\n")
                os.makedirs(os.path.join(d, "tests"))
                open(os.path.join(d, "tests", "it.rs"), "w").write("#[test]\nfn t() {}\n")
                os.makedirs(os.path.join(d, "examples"))
                open(os.path.join(d, "examples", "ex.rs"), "w").write("fn main() {}\n")
            if bp.get("deps"):
                open(os.path.join(d, "package.toml"), "w").write('[buildpack]\nuri = "."\n' + "".join(f'\n[[dependencies]]\nuri = "{dep}"\n' for dep in bp["deps"]))
        elif bp["kind"] == "composite":
            p = '[buildpack]\nuri = "."\n' + "".join(f'\n[[dependencies]]\nuri = "{dep}"\n' for dep in bp["deps"])
            if bp.get("platform"):
                p += f'\n[platform]\nos = "{bp["platform"]}"\n'
            open(os.path.join(d, "package.toml"), "w").write(p)


def run_env():
    e = {k: v for k, v in os.environ.items() if k in ("HOME", "PATH", "RUSTUP_HOME", "CARGO_HOME", "RUSTUP_TOOLCHAIN", "LANG")}
    e.update({"CARGO": CARGO, "CARGO_NET_OFFLINE": "true", "VERIF_HASH_SEED": "3", "LD_PRELOAD": SHIM})
    return e


def package_cmd(ws, release, package_dir, assist=False):
    # assist: without --no-cross-compile-assistance (for this target the packager has no advice and
    # says so; what it prints on stdout is still exactly the list of directories)
    cmd = [PACKAGER, "libcnb", "package", "--target", TRIPLE] + ([] if assist else ["--no-cross-compile-assistance"])
    if release:
        cmd.append("--release")
    if package_dir:
        cmd += ["--package-dir", package_dir]
    return cmd


def closure(ws, ids):
    by_id = {bp["id"]: bp for bp in ws["buildpacks"]}
    out, stack = set(), list(ids)
    while stack:
        i = stack.pop()
        if i in out:
            continue
        out.add(i)
        for d in by_id[i].get("deps", []):
            if d.startswith("libcnb:"):
                stack.append(d.split(":", 1)[1])
    return out


def lexical(base, rel):
    segs = [s for s in base.split("/") if s]
    for s in rel.split("/"):
        if s in ("", "."):
            continue
        if s == "..":
            if segs:
                segs.pop()
        else:
            segs.append(s)
    return "/" + "/".join(segs)


def expected_tree(ws, root, selected, release, pkgdir_abs):
    """-> {relative path under pkgdir: ('d'|'l'|'f', payload)} for the expected packaged output"""
    prof = "release" if release else "debug"
    out = {TRIPLE: ("d",), f"{TRIPLE}/{prof}": ("d",)}
    by_id = {bp["id"]: bp for bp in ws["buildpacks"]}
    for i in closure(ws, selected):
        bp = by_id[i]
        base = f"{TRIPLE}/{prof}/{i.replace('/', '_')}"
        out[base] = ("d",)
        out[f"{base}/buildpack.toml"] = ("f", bp_toml(bp).encode())
        if bp["kind"] == "libcnb":
            # a binary is judged by what it does (each generated program prints "<buildpack id>:<target>");
            # target names unique in the workspace are also compared byte for byte with cargo's artifact
            shared = {b for other in ws["buildpacks"] if other is not bp for b in other.get("bins", [])}

            def art(name, bp=bp, shared=shared):
                if name in shared:
                    return ("x", f"{bp['id']}:{name}\n".encode())
                return ("f", open(os.path.join(root, "target", TRIPLE, prof, name), "rb").read())
            out[f"{base}/bin"] = ("d",)
            out[f"{base}/bin/build"] = art(bp["bins"][0])
            out[f"{base}/bin/detect"] = ("l", "build")
            out[f"{base}/package.toml"] = ("toml", {"buildpack": {"uri": "."}})
            if len(bp["bins"]) > 1:
                out[f"{base}/.libcnb-cargo"] = ("d",)
                out[f"{base}/.libcnb-cargo/additional-bin"] = ("d",)
                for b in bp["bins"][1:]:
                    out[f"{base}/.libcnb-cargo/additional-bin/{b}"] = art(b)
        else:
            deps = []
            for d in bp["deps"]:
                if d.startswith("libcnb:"):
                    deps.append({"uri": os.path.join(pkgdir_abs, TRIPLE, prof, d.split(":", 1)[1].replace("/", "_"))})
                elif ":" in d or d.startswith("/"):
                    deps.append({"uri": d})
                else:
                    deps.append({"uri": lexical(os.path.join(root, bp["dir"]), d)})
            exp = {"buildpack": {"uri": "."}, "dependencies": deps}
            if bp.get("platform") and bp["platform"] != "linux":
                exp["platform"] = {"os": bp["platform"]}
            out[f"{base}/package.toml"] = ("toml", exp)
    return out


def compare_tree(pkgdir, want):
    """differences between the package dir on disk and the expected tree"""
    got = snapshot(pkgdir) if os.path.isdir(pkgdir) else {}
    diffs = []
    for rel, w in want.items():
        g = got.get(rel)
        if g is None:
            diffs.append(f"missing {rel}")
        elif w[0] == "d":
            if g[0] != "d":
                diffs.append(f"{rel} is not a directory")
        elif w[0] == "l":
            if g != ("l", w[1]):
                diffs.append(f"{rel} should be a link to {w[1]}, is {str(g)[:60]}")
        elif w[0] == "x":
            try:
                got_out = subprocess.run([os.path.join(pkgdir, rel)], stdout=subprocess.PIPE, stderr=subprocess.DEVNULL, timeout=20).stdout if g[0] == "f" else None
            except OSError as e:
                got_out = repr(e).encode()
            if got_out != w[1]:
                diffs.append(f"{rel} is not the program of this buildpack: running it prints {got_out!r}, expected {w[1]!r}")
        elif w[0] == "f":
            if g[0] != "f" or g[2] != w[1]:
                diffs.append(f"{rel} content differs ({'not a file' if g[0] != 'f' else str(len(g[2])) + ' bytes vs ' + str(len(w[1]))})")
        else:
            try:
                doc = tomllib.loads(g[2].decode()) if g[0] == "f" else None
            except Exception:  # noqa
                doc = None
            exp = dict(w[1])
            if doc is None:
                diffs.append(f"{rel} is not TOML")
            else:
                doc.pop("platform", None) if doc.get("platform") == {"os": "linux"} else None
                if doc != exp:
                    diffs.append(f"{rel} decodes to {doc}, expected {exp}")
    for rel in got:
        if rel not in want:
            diffs.append(f"unexpected {rel}")
    return diffs


def pkgdir_of(ws, root, override=None):
    d = override if override is not None else ws["package_dir"]
    if d is None:
        return os.path.join(root, "packaged")
    return d if os.path.isabs(d) else os.path.join(root, d)


def resolve_pkgdir(ws, root, cwd_rel, pk):
    """where the output must go: default <root>/packaged; a relative --package-dir is relative to the cwd"""
    if pk is None:
        return os.path.join(root, "packaged")
    if os.path.isabs(pk):
        return pk
    return os.path.normpath(os.path.join(root, cwd_rel or "", pk))


def invoke(ws, root, cwd_rel, release=False, package_dir_arg=None, strace_inject=None, log=None, assist=False):
    cwd = os.path.join(root, cwd_rel) if cwd_rel else root
    cmd = package_cmd(ws, release, package_dir_arg, assist)
    if strace_inject is not None or log:
        pre = ["strace", "-y", "-e", f"trace={SYSCALLS}", "-o", log]
        if strace_inject:
            pre += ["-e", f"inject={strace_inject}"]
        cmd = pre + cmd
    r = subprocess.run(cmd, cwd=cwd, env=run_env(), stdout=subprocess.PIPE, stderr=subprocess.PIPE, timeout=600)
    return r


def selected_for(ws, cwd_rel):
    if not cwd_rel:
        at_root = [bp["id"] for bp in ws["buildpacks"] if bp["dir"] == "" and bp["kind"] in ("libcnb", "composite")]
        if at_root:
            return at_root
        return [bp["id"] for bp in ws["buildpacks"] if bp["kind"] in ("libcnb", "composite")]
    return [bp["id"] for bp in ws["buildpacks"] if bp["dir"] == cwd_rel and bp["kind"] in ("libcnb", "composite")]


def judge_clean(ws, root, cwd_rel, release, pkg_override, r, label):
    v = []
    pkgdir = resolve_pkgdir(ws, root, cwd_rel, pkg_override)
    sel = selected_for(ws, cwd_rel)
    ambiguous = any(bp.get("ambiguous") for bp in ws["buildpacks"] if bp["id"] in closure(ws, sel))
    if ambiguous or not sel:
        if r.returncode == 0:
            v.append(("error-expected", f"{label}: exit 0 although {'the main binary target is ambiguous' if ambiguous else 'no buildpack is selected'}"))
        if r.stdout.strip():
            v.append(("stdout-on-error", f"{label}: printed {r.stdout!r} although packaging failed"))
        return v
    if r.returncode != 0:
        v.append(("packaging-failed", f"{label}: exit {r.returncode}: {r.stderr.decode(errors='replace')[-400:]}"))
        return v
    want = expected_tree(ws, root, sel, release, pkgdir)
    for d in compare_tree(pkgdir, want)[:6]:
        kind = d.split(" ")[0]
        v.append((f"output-tree:{kind}", f"{label}: {d}"))
    prof = "release" if release else "debug"
    lines = sorted(l for l in r.stdout.decode().splitlines() if l.strip())
    exp = sorted(os.path.join(pkgdir, TRIPLE, prof, i.replace("/", "_")) for i in sel)
    if lines != exp:
        v.append(("stdout", f"{label}: stdout lists {lines}, the selected buildpacks are {exp}"))
    return v


def crash_point_job(arg):
    ws, src_root, work, fault, pre_seed = arg
    shutil.rmtree(work, ignore_errors=True)
    subprocess.run(["cp", "-a", src_root, work], check=True)
    pkgdir = pkgdir_of(ws, work)
    shutil.rmtree(pkgdir, ignore_errors=True)
    info = ""
    if pre_seed:
        seed_foreign(ws, work, pkgdir, pre_seed)
        info = f"pre-seeded output ({pre_seed})"
    if fault:
        sc, k, relpath = fault
        log = work + ".log"
        r1 = invoke(ws, work, "", package_dir_arg=ws["package_dir"], strace_inject=f"{sc}:signal=SIGKILL:when={k}", log=log)
        calls, code = parse_log(log, work)
        hit = [c for c in calls if c[0] == sc and c[1] == k]
        if not hit or hit[0][2] != relpath:
            shutil.rmtree(work, ignore_errors=True)
            return ("MACHINERY", f"crash point {fault}: the kill was not delivered at the recorded call (saw {hit[:1]})", None)
        info = f"first run killed before {sc}#{k} on {relpath}"
    cwd_rel = ""
    if pre_seed and pre_seed.endswith("@composite"):
        # invoked from the first composite's own directory: its dependencies are packaged too,
        # whatever their output directories hold already
        cwd_rel = [bp for bp in ws["buildpacks"] if bp["kind"] == "composite"][0]["dir"]
    pk = ws["package_dir"] and os.path.join(work, ws["package_dir"])
    r2 = invoke(ws, work, cwd_rel, package_dir_arg=pk if cwd_rel else ws["package_dir"])
    v = judge_clean(ws, work, cwd_rel, False, pk if cwd_rel else ws["package_dir"], r2, f"{ws['name']} second run{' from ' + cwd_rel if cwd_rel else ''} after {info}")
    left = None
    shutil.rmtree(work, ignore_errors=True)
    if os.path.exists(work + ".log"):
        os.unlink(work + ".log")
    return ("ok", v, info)


def seed_foreign(ws, root, pkgdir, kind):
    base = os.path.join(pkgdir, TRIPLE, "debug")
    first = [bp for bp in ws["buildpacks"] if bp["kind"] == "libcnb"][0]
    d = os.path.join(base, first["id"].replace("/", "_"))
    if kind == "extra-files":
        os.makedirs(os.path.join(d, "bin"))
        os.makedirs(os.path.join(d, ".libcnb-cargo", "additional-bin"))
        for p in ("stale.txt", "bin/old-binary", ".libcnb-cargo/additional-bin/stale-tool"):
            open(os.path.join(d, p), "w").write("stale")
        open(os.path.join(base, "stray-file"), "w").write("x") if False else None
    elif kind == "dir-where-detect-goes":
        os.makedirs(os.path.join(d, "bin", "detect", "sub"))
    elif kind == "file-where-bin-goes":
        os.makedirs(d)
        open(os.path.join(d, "bin"), "w").write("i am a file")
    elif kind == "dangling-detect":
        os.makedirs(os.path.join(d, "bin"))
        os.symlink("nowhere", os.path.join(d, "bin", "detect"))
    elif kind == "foreign-files-in-every-output-dir":
        for bp in ws["buildpacks"]:
            if bp["kind"] == "other":
                continue
            bd = os.path.join(base, bp["id"].replace("/", "_"))
            os.makedirs(os.path.join(bd, "bin"), exist_ok=True)
            os.makedirs(os.path.join(bd, ".libcnb-cargo", "additional-bin"), exist_ok=True)
            for p in ("leftover.txt", "bin/build", ".libcnb-cargo/additional-bin/helper-from-earlier"):
                open(os.path.join(bd, p), "w").write("stale")
            os.symlink("build", os.path.join(bd, "bin", "detect"))
    elif kind == "stale-descriptors-in-every-output-dir@composite":
        # "every" = every output directory the run from the first composite's directory will write
        # (the composite and its libcnb: dependency closure)
        comp = [bp for bp in ws["buildpacks"] if bp["kind"] == "composite"][0]
        wanted = closure(ws, [comp["id"]])
        for bp in ws["buildpacks"]:
            if bp["kind"] == "other" or bp["id"] not in wanted:
                continue
            bd = os.path.join(base, bp["id"].replace("/", "_"))
            os.makedirs(bd, exist_ok=True)
            open(os.path.join(bd, "buildpack.toml"), "w").write('api = "0.9"\n\n[buildpack]\nid = "stale/one"\nversion = "0.0.0"\n')
            open(os.path.join(bd, "package.toml"), "w").write('[buildpack]\nuri = "."\n')
            open(os.path.join(bd, "leftover.txt"), "w").write("stale")
    elif kind == "old-composite-package-toml":
        comp = [bp for bp in ws["buildpacks"] if bp["kind"] == "composite"]
        if comp:
            cd = os.path.join(base, comp[0]["id"].replace("/", "_"))
            os.makedirs(cd)
            open(os.path.join(cd, "package.toml"), "w").write('[buildpack]\nuri = "."\n\n[[dependencies]]\nuri = "libcnb:old/dep"\n' + "# padding\n" * 50)
            open(os.path.join(cd, "buildpack.toml"), "w").write("stale = true\n" * 30)


SEEDS = ["stale-descriptors-in-every-output-dir@composite", "foreign-files-in-every-output-dir", "extra-files", "dir-where-detect-goes", "file-where-bin-goes", "dangling-detect", "old-composite-package-toml"]


def family(thorough=True):
    """composite-only workspaces (nothing to compile): every labelled DAG on three composites x every
    assignment of ids (so that the alphabetical order of ids agrees and disagrees with the
    dependency order in every way); one buildpack lives in a directory literally named `target`"""
    dirs = ["buildpacks/target", "meta/x", "meta/deep/y"]
    all_edges = [(i, j) for i in range(3) for j in range(3) if i != j]

    def acyclic(es):
        # no 2-cycles and no 3-cycles on three nodes
        s = set(es)
        if any((j, i) in s for (i, j) in s):
            return False
        return not any((a, b) in s and (b, c) in s and (c, a) in s for a, b, c in itertools.permutations(range(3)))

    # every labelled DAG on the three directories (25): a dependency may point with or against the
    # order in which a directory walk meets the buildpacks, whatever that order is on this file system
    dags = [es for n in range(len(all_edges) + 1) for es in itertools.combinations(all_edges, n) if acyclic(es)]
    out = []
    # second id set: an id with several slashes whose prefix is another buildpack's id (their output
    # directory names must stay siblings: acme_tools and acme_tools_one); it runs over the DAGs
    # whose edges all point to lower directory indices
    for di, es in enumerate(dags):
        for ids in (["acme/a", "acme/b", "acme/c"], ["acme/tools", "acme/tools/one", "zeta"]):
            if ids[0] == "acme/tools" and any(i < j for (i, j) in es):
                continue
            perms = list(itertools.permutations(ids))
            if not thorough and any(i < j for (i, j) in es):
                # quick: the DAGs with an edge against the directory index order get the identity and the reversed id assignment
                perms = [perms[0], perms[-1]]
            for perm in perms:
                bps = []
                for k in range(3):
                    deps = [f"libcnb:{perm[j]}" for (i, j) in es if i == k]
                    bps.append({"id": perm[k], "dir": dirs[k], "kind": "composite", "deps": deps + ["docker://docker.io/external/example:1.2.3"]})
                out.append({"name": f"g{di}-{'.'.join(x.replace('/', '_') for x in perm)}", "ignore": "packaged/\n", "package_dir": None, "buildpacks": bps})
    return out


def family_job(arg):
    ws, scratch = arg
    root = os.path.join(scratch, ws["name"])
    shutil.rmtree(root, ignore_errors=True)
    generate(ws, root)
    v = []
    n = 0
    for cwd_rel, assist in [("", False), ("", True)] + [(bp["dir"], False) for bp in ws["buildpacks"]]:
        shutil.rmtree(pkgdir_of(ws, root), ignore_errors=True)
        r = invoke(ws, root, cwd_rel, assist=assist)
        n += 1
        label = f"{ws['name']} {[(bp['id'], bp['dir'], [d for d in bp['deps'] if d.startswith('libcnb:')]) for bp in ws['buildpacks']]} from {cwd_rel or '<root>'}{' (cross-compile assistance on)' if assist else ''}"
        for sig, what in judge_clean(ws, root, cwd_rel, False, None, r, label):
            v.append((sig, what, {"workspace": ws["name"], "cwd": cwd_rel, "release": False, "package_dir": None}))
    shutil.rmtree(root, ignore_errors=True)
    return n, v


def run(ctx):
    res = Result(ctx, "fault_enumeration")
    build_packager()
    if not os.path.exists(SHIM):
        raise Machinery("libdetrand.so not built")
    workspaces = [W1, W2, W3, W4, W6] + ([W5] if ctx.thorough else [])
    crash_ws = [W1] + ([W2] if ctx.thorough else [])
    if ctx.replay:
        rp = json.load(open(ctx.replay))["replay"]
        workspaces = [w for w in [W1, W2, W3, W4, W5, W6] if w["name"] == rp["workspace"]]
        fam = [w for w in family() if w["name"] == rp["workspace"]]
        for w in fam:
            n, v = family_job((w, ctx.scratch))
            for sig, what, r in v:
                if r["cwd"] == rp["cwd"]:
                    print("DIFFERENCE:", what)
                    res.violation(sig, what, r)
        if fam:
            return res.done()
        crash_ws = workspaces if rp.get("fault") or rp.get("seed") else []
    evals = 0
    outcomes = set()
    roots = {}
    # 1. clean runs: every invocation directory, profiles, package-dir forms
    for ws in workspaces:
        root = os.path.join(ctx.scratch, ws["name"])
        generate(ws, root)
        roots[ws["name"]] = root
        invocations = [("", False, ws["package_dir"])]
        for bp in ws["buildpacks"]:
            if bp["dir"]:
                invocations.append((bp["dir"], False, ws["package_dir"] and os.path.join(root, ws["package_dir"])))
        for bp in ws["buildpacks"]:
            if bp["kind"] in ("libcnb", "composite") and ws["name"] in ("w1", "w2", "w5"):
                # a relative --package-dir is relative to the invocation directory
                invocations.append((bp["dir"], False, "rel-out"))
                invocations.append((bp["dir"], False, "../dist"))
        if ws["name"] in ("w1", "w2"):
            invocations.append(("", False, "rel-out"))
        if ws["name"] in ("w1", "w4"):
            invocations.append(("", True, ws["package_dir"]))
            invocations.append(("", False, os.path.join(ctx.scratch, "outside-" + ws["name"])))
        for cwd_rel, release, pk in invocations:
            pkgdir = resolve_pkgdir(ws, root, cwd_rel, pk)
            shutil.rmtree(pkgdir, ignore_errors=True)
            r = invoke(ws, root, cwd_rel, release, pk)
            label = f"{ws['name']} from {cwd_rel or '<root>'}{' --release' if release else ''}{' --package-dir ' + pk if pk else ''}"
            evals += 1
            outcomes.add(f"{ws['name']}:{r.returncode}")
            for sig, what in judge_clean(ws, root, cwd_rel, release, pk, r, label):
                res.violation(sig, what, {"workspace": ws["name"], "cwd": cwd_rel, "release": release, "package_dir": pk})
            # second run over the complete output of the first one
            r = invoke(ws, root, cwd_rel, release, pk)
            evals += 1
            for sig, what in judge_clean(ws, root, cwd_rel, release, pk, r, label + " (re-run over its own output)"):
                res.violation("rerun:" + sig, what, {"workspace": ws["name"], "cwd": cwd_rel, "release": release, "package_dir": pk})
            shutil.rmtree(pkgdir, ignore_errors=True)
    # 1b. the composite-only family, every invocation directory
    fam = [] if ctx.replay else family(ctx.thorough)
    with ProcessPoolExecutor(max_workers=16) as ex:
        for n, v in ex.map(family_job, [(w, ctx.scratch) for w in fam]):
            evals += n
            for sig, what, r in v:
                res.violation(sig, what, r)
    # 2. crash points of a first run + foreign content
    n_points = {}
    jobs = []
    for ws in crash_ws:
        root = roots[ws["name"]]
        pkgdir = pkgdir_of(ws, root)
        logs = []
        for i in range(2):
            shutil.rmtree(pkgdir, ignore_errors=True)
            log = os.path.join(ctx.scratch, f"{ws['name']}.rec{i}.log")
            r = invoke(ws, root, "", package_dir_arg=ws["package_dir"], log=log)
            if r.returncode != 0:
                if res.violations:
                    # the clean runs above already failed and were reported: no crash points to enumerate
                    logs = None
                    break
                raise Machinery(f"recording run of {ws['name']} failed: {r.stderr[-300:]!r}")
            calls, code = parse_log(log, root)
            logs.append([(c[0], c[1], c[2]) for c in calls if c[2] and c[2].startswith("/" + os.path.relpath(pkgdir, root))])
        if logs is None:
            continue
        if logs[0] != logs[1]:
            raise Machinery(f"C15: the packager's syscall history for {ws['name']} is not reproducible")
        shutil.rmtree(pkgdir, ignore_errors=True)
        points = logs[0]
        n_points[ws["name"]] = len(points)
        for j, f in enumerate(points):
            jobs.append((ws, root, os.path.join(ctx.scratch, f"cp-{ws['name']}-{j}"), f, None))
        for s in SEEDS:
            jobs.append((ws, root, os.path.join(ctx.scratch, f"seed-{ws['name']}-{s}"), None, s))
    if ctx.replay and jobs:
        jobs = [j for j in jobs if (list(j[3]) if j[3] else None) == rp.get("fault") and j[4] == rp.get("seed")]
    with ProcessPoolExecutor(max_workers=8) as ex:
        for job, out in zip(jobs, ex.map(crash_point_job, jobs)):
            evals += 1
            if out[0] == "MACHINERY":
                raise Machinery(out[1])
            for sig, what in out[1]:
                if ctx.replay:
                    print("DIFFERENCE:", what)
                res.violation(("after-crash:" if job[3] else "over-foreign-content:") + sig, what, {"workspace": job[0]["name"], "fault": list(job[3]) if job[3] else None, "seed": job[4]})
    res.cov("evaluations", evals)
    res.cov("distinct_nontrivial", len(jobs) + len(workspaces) + len(fam))
    res.cov("composite_family_workspaces", len(fam))
    res.cov("crash_points", n_points)
    res.cov("workspaces", [w["name"] for w in workspaces])
    res.cov("distinct_outcomes", sorted(outcomes))
    res.cov("determinism_replays", len(crash_ws))
    res.cov("rule", "generated workspaces of trivial crates (libcnb.rs buildpacks with 1-3 binary targets incl. an ambiguous one, composites with libcnb:/relative/docker/urn dependencies forming a DAG, a non-libcnb buildpack directory, an ignore file for the output directory) packaged by the real cargo-libcnb from the root and from every buildpack directory, dev/release, default/custom/outside package dir, each also re-run over its own output; plus a composite-only family: every labelled DAG (25) on three composite buildpacks x every assignment of three ids (two id sets, one with a multi-slash id whose prefix is another id) (alphabetical id order vs dependency order in every combination; one buildpack in a directory named `target`), from the root (with and without --no-cross-compile-assistance) and from every buildpack directory; one crate carries a build script, an integration test and an example; then for the crash workspaces every mutating syscall of the packager under the package directory is a crash point (SIGKILL before the call) followed by a complete second run, plus 6 kinds of foreign pre-seeded content (one of them, stale descriptor files in every output directory, followed by a run from a composite's own directory); distinct_nontrivial = crash points + seeds + workspaces")
    res.cov("bound", {"first_run_crashes": 1, "target": TRIPLE})
    res.cov("exhaustive", True)
    res.sample({"workspace": W1})
    res.sample({"crash_points_w1": n_points.get("w1")})
    res.assume("only the host gnu target is installed; the packager's own syscalls are counted (strace without -f), cargo's are not; HashMap order pinned with the shim; workspaces always carry an ignore file for the output directory (documented setup)")
    return res.done()
