"""Independent TOML value generator + emitter (used by C06, C07, C08 oracles).

A value is a tagged tuple: ("s", str) ("i", int) ("f", float) ("b", bool) ("d", canonical datetime
text) ("a", [values]) ("t", {key: value}).  `emit` writes TOML 1.0 text without using any TOML
library; `from_tomllib` converts what Python's tomllib parsed into the same tagged form so that two
independent readers can be compared structurally.
"""
import datetime
import math

STRINGS = ["", "a", "a b", '"', "\\", "'''", '"""', "\n", "\r\n", "\t", "\u0000", "\u001f", "\u007f", "é", "😀", "#", "=", "[x]"]


def scalars():
    out = [("s", s) for s in STRINGS]
    out += [("i", i) for i in (0, -1, 42, 2**63 - 1, -(2**63))]
    out += [("f", f) for f in (1.5, -0.0, 1e100, float("inf"), float("-inf"), float("nan"))]
    out += [("b", True), ("b", False)]
    out += [("d", "1979-05-27T07:32:00Z"), ("d", "1979-05-27T00:32:00.999999-07:00"), ("d", "1979-05-27T07:32:00"), ("d", "1979-05-27"), ("d", "07:32:00")]
    return out


def composites():
    s = ("s", "x\"y")
    i = ("i", 7)
    out = [
        ("a", []),
        ("a", [i, ("i", 8)]),
        ("a", [i, s]),
        ("a", [("a", [i]), ("a", [])]),
        ("a", [("t", {"k": i}), ("t", {"j": s})]),
        ("t", {}),
        ("t", {"k": s}),
        ("t", {"a b": i, "": s, "é": ("b", True)}),
        ("t", {"n": ("t", {"m": i}), "l": ("a", [s])}),
    ]
    return out


def all_values():
    return scalars() + composites()


def key(k):
    if k and all(c.isascii() and (c.isalnum() or c in "-_") for c in k):
        return k
    return basic_string(k)


def basic_string(s):
    out = ['"']
    for ch in s:
        o = ord(ch)
        if ch == '"':
            out.append('\\"')
        elif ch == "\\":
            out.append("\\\\")
        elif ch == "\n":
            out.append("\\n")
        elif ch == "\r":
            out.append("\\r")
        elif ch == "\t":
            out.append("\\t")
        elif o < 0x20 or o == 0x7F:
            out.append("\\u%04x" % o)
        else:
            out.append(ch)
    out.append('"')
    return "".join(out)


def inline(v):
    t, x = v
    if t == "s":
        return basic_string(x)
    if t == "i":
        return str(x)
    if t == "f":
        if math.isnan(x):
            return "nan"
        if math.isinf(x):
            return "inf" if x > 0 else "-inf"
        r = repr(x)
        if "e" in r and "." not in r.split("e")[0]:
            r = r.replace("e", ".0e")
        return r
    if t == "b":
        return "true" if x else "false"
    if t == "d":
        return x
    if t == "a":
        return "[" + ", ".join(inline(e) for e in x) + "]"
    if t == "t":
        return "{ " + ", ".join(f"{key(k)} = {inline(e)}" for k, e in x.items()) + " }" if x else "{}"
    raise ValueError(t)


def emit_table_body(d):
    """lines `key = inline-value` for a dict of tagged values"""
    return "".join(f"{key(k)} = {inline(v)}\n" for k, v in d.items())


def from_tomllib(x):
    if isinstance(x, bool):
        return ("b", x)
    if isinstance(x, str):
        return ("s", x)
    if isinstance(x, int):
        return ("i", x)
    if isinstance(x, float):
        return ("f", x)
    if isinstance(x, datetime.datetime):
        return ("d", canon_dt(x.isoformat()))
    if isinstance(x, (datetime.date, datetime.time)):
        return ("d", x.isoformat())
    if isinstance(x, list):
        return ("a", [from_tomllib(e) for e in x])
    if isinstance(x, dict):
        return ("t", {k: from_tomllib(v) for k, v in x.items()})
    raise ValueError(type(x))


def canon_dt(s):
    return s.replace("+00:00", "Z")


def from_vbjson(j):
    """vb's dump format {"s":..}|{"i":"..."}|{"f":"..."}|{"b":..}|{"d":..}|{"a":[..]}|{"t":{..}}"""
    (t, x), = j.items()
    if t == "i":
        return ("i", int(x))
    if t == "f":
        return ("f", float(x.replace("NaN", "nan")))
    if t == "a":
        return ("a", [from_vbjson(e) for e in x])
    if t == "t":
        return ("t", {k: from_vbjson(v) for k, v in x.items()})
    if t == "d":
        return ("d", canon_dt(x))
    return (t, x)


def same(a, b):
    """structural equality with float care (nan == nan, sign of zero)"""
    if a[0] != b[0]:
        return False
    t = a[0]
    if t == "f":
        x, y = a[1], b[1]
        if math.isnan(x) or math.isnan(y):
            return math.isnan(x) and math.isnan(y)
        return x == y and math.copysign(1, x) == math.copysign(1, y)
    if t == "a":
        return len(a[1]) == len(b[1]) and all(same(p, q) for p, q in zip(a[1], b[1]))
    if t == "t":
        return set(a[1]) == set(b[1]) and all(same(a[1][k], b[1][k]) for k in a[1])
    if t == "d":
        return canon_dt(a[1]) == canon_dt(b[1])
    return a[1] == b[1]


def to_json_plain(v):
    """tagged value -> plain JSON (for vb scripts; datetimes/nan/inf not representable)"""
    t, x = v
    if t == "a":
        return [to_json_plain(e) for e in x]
    if t == "t":
        return {k: to_json_plain(e) for k, e in x.items()}
    return x
