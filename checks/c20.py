"""C20 — byte-identical outputs for identical inputs: differential runs of the real detect/build
executable in fresh processes with the HashMap seed as an ENUMERATED choice (getrandom shim):
seeds are searched until every iteration order of each 3-key set used by the scenarios has a
witness; every scenario runs once per witness seed (plus one seed twice) in different
directories and the outputs are compared byte for byte."""
import itertools
import re
import json
import os
import shutil
import subprocess
from concurrent.futures import ProcessPoolExecutor

from common import Result, Machinery, TARGET, VERIF
from vbcommon import World, ensure_vb
from c12 import snapshot

SHIM = os.path.join(VERIF, "target", "libdetrand.so")
OPRUNNER = os.path.join(TARGET, "oprunner")
KEYSETS = [["p1", "p2", "p3"], ["web", "worker", "cron"], ["k1", "k2", "k3"], ["cdx", "spdx", "syft"]]

ENV3 = [["all", "override", "A", "1"], ["build", "append", "A", "2"], ["launch", "default", "B", "3"], ["process:web", "override", "C", "4"], ["process:worker", "override", "C", "5"],
        ["process:cron", "prepend", "D", "6"], ["process:cron", "delim", "D", ":"]]
MD3 = {"k1": "v", "k2": {"k3": 1, "k1": [1, 2], "k2": True}, "k3": 3}
SB3 = [["cdx", "{\"c\":1}"], ["spdx", "{\"s\":1}"], ["syft", "{\"y\":1}"]]
EX3 = {"p1": "p1", "p2": "p2", "p3": "p3"}
RESULT3 = {"metadata": MD3, "env": ENV3, "execd": EX3, "sboms": SB3}

# building blocks (each a list of layer operations on layer n)
def blocks(n):
    return {
        "cached": [{"op": "cached", "name": n, "build": True, "launch": True}],
        "cached-delete": [{"op": "cached", "name": n, "build": True, "restored": "delete"}],
        "uncached": [{"op": "uncached", "name": n, "launch": True}],
        "writes": [{"op": "cached", "name": n, "launch": True}, {"op": "write_metadata", "name": n, "metadata": MD3}, {"op": "write_env", "name": n, "env": ENV3},
                   {"op": "write_sboms", "name": n, "sboms": SB3}, {"op": "write_exec_d", "name": n, "programs": EX3}],
        "handle-create": [{"op": "handle", "name": n, "types": [True, True, True], "strategy": "recreate", "result": RESULT3}],
        "handle-keep": [{"op": "handle", "name": n, "types": [True, False, True], "strategy": "keep", "result": RESULT3}],
        "handle-update": [{"op": "handle", "name": n, "types": [False, True, True], "strategy": "update", "result": RESULT3}],
        # failing operations: the build ends with an error, what is left behind must still be the same
        "exec-missing": [{"op": "cached", "name": n, "launch": True}, {"op": "write_exec_d", "name": n, "programs": {"gone": "missing"}}],
        "handle-exec-missing": [{"op": "handle", "name": n, "types": [True, True, True], "strategy": "recreate", "result": dict(RESULT3, execd={"gone": "missing"})}],
    }

LAUNCH3 = {"processes": [{"type": t, "command": ["c", t], "args": ["a"], "default": t == "web"} for t in ("web", "worker", "cron")],
           "labels": [["k1", "a"], ["k2", "b"], ["k3", "c"]], "slices": [["*.a"], ["b", "c"]]}
STORE3 = {"k1": {"k3": 1, "k2": 2, "k1": 3}, "k2": "x", "k3": [1, 2, 3]}
PLAN = [["provides", "p1"], ["provides", "p2"], ["requires_meta", "p3", MD3], ["or"], ["requires", "k1"], ["requires_meta", "k2", {"k2": 1, "k1": 2, "k3": 3}], ["or"], ["provides", "k3"]]


def scenarios(thorough):
    out = []
    names = list(blocks("a"))
    depth = 3 if thorough else 2
    for d in range(1, depth + 1):
        for combo in itertools.product(names, repeat=d):
            # the same layer throughout (re-requests of an existing layer) and alternating layers
            for layers in (["a"] * d, ["a" if i % 2 == 0 else "b.c" for i in range(d)]):
                if d > 1 and layers == ["a"] * d and d == 1:
                    continue
                ops = []
                for i, b in enumerate(combo):
                    ops += blocks(layers[i])[b]
                label = "+".join(f"{b}@{l}" for b, l in zip(combo, layers))
                if any(sc["label"] == label for sc in out):
                    continue
                out.append({"phase": "build", "label": label, "script": {"build": {"kind": "pass", "ops": ops, "launch": LAUNCH3, "store": STORE3, "build_sboms": SB3, "launch_sboms": SB3[:2]}}})
    out.append({"phase": "build", "label": "results-only", "script": {"build": {"kind": "pass", "launch": LAUNCH3, "store": STORE3, "build_sboms": SB3, "launch_sboms": SB3}}})
    out.append({"phase": "detect", "label": "plan", "script": {"detect": {"kind": "pass_plan", "plan": PLAN}}})
    # a process type added twice (plus distinct ones), labels with a repeated key
    dup = dict(LAUNCH3, processes=LAUNCH3["processes"] + [LAUNCH3["processes"][0], LAUNCH3["processes"][1]], labels=LAUNCH3["labels"] + [["k1", "again"]])
    out.append({"phase": "build", "label": "duplicate-process-types", "script": {"build": {"kind": "pass", "launch": dup, "store": STORE3}}})
    # the launch configuration set twice on one result builder; two process types both flagged default
    second = {"processes": [{"type": t, "command": ["second", t], "args": [], "default": False} for t in ("cron", "k1", "web")], "labels": [["k3", "z"], ["k4", "d"]], "slices": [["*.z"]]}
    out.append({"phase": "build", "label": "launch-set-twice", "script": {"build": {"kind": "pass", "launch": LAUNCH3, "launch2": second, "store": STORE3}}})
    two_defaults = dict(LAUNCH3, processes=[dict(p, default=p["type"] in ("web", "worker", "cron")) for p in LAUNCH3["processes"]])
    out.append({"phase": "build", "label": "several-default-processes", "script": {"build": {"kind": "pass", "launch": two_defaults}}})
    # a restored layer whose metadata holds keys the typed metadata struct does not declare, handled
    # by every strategy of the trait API (typed metadata v1 = {version})
    legacy = {"a.toml": '[metadata]\nversion = "1"\nk1 = 1\nk2 = "two"\nk3 = [3]\nchecksum = "abc"\nsource = { url = "u", rev = 7 }\n', "a/keep": "k"}
    for strat in ("keep", "update", "recreate"):
        out.append({"phase": "build", "label": f"undeclared-metadata-keys:handle-{strat}", "pre": legacy,
                    "script": {"build": {"kind": "pass", "ops": [{"op": "handle", "name": "a", "meta_type": "v1", "types": [True, True, True], "strategy": strat, "result": dict(RESULT3, metadata={"version": "2"})}]}}})
    # exec.d program names that are paths: "../setup" and "setup" are different names
    out.append({"phase": "build", "label": "execd-path-like-names:handle", "script": {"build": {"kind": "pass", "ops": [{"op": "handle", "name": "a", "types": [True, True, True], "strategy": "recreate", "result": dict(RESULT3, execd={"setup": "p1", "../setup": "p2"})}]}}})
    out.append({"phase": "build", "label": "execd-path-like-names:write_exec_d", "script": {"build": {"kind": "pass", "ops": [{"op": "cached", "name": "a", "launch": True}, {"op": "write_exec_d", "name": "a", "programs": {"setup": "p1", "../setup": "p2"}}]}}})
    # slices listing a glob twice (inside one slice and across slices)
    red = dict(LAUNCH3, slices=[["*.a", "b", "*.a", "c", "d"], ["b", "e", "f", "e"]])
    out.append({"phase": "build", "label": "launch-redundant-slice-globs", "script": {"build": {"kind": "pass", "launch": red}}})
    # layers named like the phase's own output files: the directory <layers>/launch.toml/ makes writing
    # launch.toml fail; what a failed build leaves must not depend on the process either
    for n, extra in (("launch.toml", {"launch": LAUNCH3}), ("store.toml", {"store": STORE3}), ("build.sbom.cdx.json", {"build_sboms": SB3})):
        out.append({"phase": "build", "label": f"layer-named-{n}", "script": {"build": dict({"kind": "pass", "ops": [{"op": "cached", "name": n, "launch": True}, {"op": "write_metadata", "name": n, "metadata": MD3}]}, **extra)}})
    # exec.d programs that share one source file (three names, one source), by both APIs
    same_src = {"10-alpha": "p1", "20-beta": "p1", "30-gamma": "p1", "40-other": "p2"}
    out.append({"phase": "build", "label": "execd-shared-source:write_exec_d", "script": {"build": {"kind": "pass", "ops": [{"op": "cached", "name": "a", "launch": True}, {"op": "write_exec_d", "name": "a", "programs": same_src}]}}})
    out.append({"phase": "build", "label": "execd-shared-source:handle", "script": {"build": {"kind": "pass", "ops": [{"op": "handle", "name": "a", "types": [True, True, True], "strategy": "recreate", "result": dict(RESULT3, execd=same_src)}]}}})
    # a build plan in which names repeat inside an alternative (provides and requires)
    rep_plan = [["provides", "node"], ["provides", "npm"], ["provides", "node"], ["provides", "yarn"], ["provides", "pnpm"], ["requires", "k1"], ["requires", "k2"], ["requires", "k1"], ["requires", "k3"],
                ["or"], ["provides", "p1"], ["provides", "p2"], ["provides", "p3"], ["provides", "p2"], ["requires_meta", "k2", {"k2": 1}], ["requires_meta", "k2", {"k1": 2}], ["requires", "k3"]]
    out.append({"phase": "detect", "label": "plan-repeated-names", "script": {"detect": {"kind": "pass_plan", "plan": rep_plan}}})
    # a plan whose alternatives repeat (the primary plan again, one alternative twice) next to three distinct ones
    alt = lambda n: [["provides", n], ["requires", n]]
    red_plan = alt("k1") + [["or"]] + alt("k2") + [["or"]] + alt("k1") + [["or"]] + alt("k3") + [["or"]] + alt("k2") + [["or"]] + alt("p1")
    out.append({"phase": "detect", "label": "plan-redundant-alternatives", "script": {"detect": {"kind": "pass_plan", "plan": red_plan}}})
    # metadata set twice on one Require, both values holding 3-element lists under the same keys
    out.append({"phase": "detect", "label": "plan-require-metadata-set-twice", "script": {"detect": {"kind": "pass_plan", "plan": [
        ["requires_meta_n", "k1", {"list": ["k1", "k2", "k3"], "t": {"k1": [1, 2, 3]}}, {"list": ["k3", "p1", "p2"], "t": {"k1": [3, 4, 5], "k2": ["web", "worker", "cron"]}}],
        ["provides", "k1"]]}}})
    # path-list values that repeat an entry (3 distinct entries, one of them twice), with a delimiter: written as given
    rep_env = [["build", "append", "PATH", "/k1/bin:/k2/bin:/k3/bin:/k1/bin"], ["build", "delim", "PATH", ":"], ["launch", "prepend", "LD_LIBRARY_PATH", "/p1:/p2:/p3:/p2:/p1"], ["launch", "delim", "LD_LIBRARY_PATH", ":"],
               ["process:web", "append", "X", "web,worker,cron,web"], ["process:web", "delim", "X", ","]]
    out.append({"phase": "build", "label": "path-lists-with-repeated-entries:write_env", "script": {"build": {"kind": "pass", "ops": [{"op": "cached", "name": "a", "launch": True}, {"op": "write_env", "name": "a", "env": rep_env}]}}})
    out.append({"phase": "build", "label": "path-lists-with-repeated-entries:handle", "script": {"build": {"kind": "pass", "ops": [{"op": "handle", "name": "a", "types": [True, True, True], "strategy": "recreate", "result": dict(RESULT3, env=rep_env)}]}}})
    # an exec.d name re-installed from another source of the same length (the sources' time stamps
    # are equal in one run and differ in the next: file times are no input)
    out.append({"phase": "build", "label": "exec-d-reinstalled-from-same-sized-source", "script": {"build": {"kind": "pass", "ops": [{"op": "cached", "name": "a", "launch": True}, {"op": "write_exec_d", "name": "a", "programs": {"prog": "p1", "other": "p3"}},
               {"op": "write_exec_d", "name": "a", "programs": {"prog": "p2", "other": "p3"}}]}}})
    # one exec.d program name registered twice, from sources below different directories
    out.append({"phase": "build", "label": "exec-d-name-registered-twice", "script": {"build": {"kind": "pass", "ops": [{"op": "cached", "name": "a", "launch": True}, {"op": "write_exec_d_pairs", "name": "a",
               "programs": [["prog", "p1"], ["prog", "ALT:p1"], ["other", "ALT:p2"], ["other", "p2"], ["third", "ALT:p3"]]}]}}})
    # several SBOMs of the same format in one call (they target the same file: which one survives
    # must not depend on the process)
    dup_sb = [["cdx", "{\"first\":true}"], ["cdx", "{\"second\":true}"], ["spdx", "{\"s\":1}"], ["spdx", "{\"s\":2}"], ["syft", "{\"y\":1}"], ["cdx", "{\"third\":true}"]]
    out.append({"phase": "build", "label": "duplicate-sbom-formats:write_sboms", "script": {"build": {"kind": "pass", "ops": [{"op": "cached", "name": "a", "launch": True}, {"op": "write_sboms", "name": "a", "sboms": dup_sb}]}}})
    out.append({"phase": "build", "label": "duplicate-sbom-formats:handle", "script": {"build": {"kind": "pass", "ops": [{"op": "handle", "name": "a", "types": [True, True, True], "strategy": "recreate", "result": dict(RESULT3, sboms=dup_sb)}]}}})
    out.append({"phase": "build", "label": "duplicate-sbom-formats:build-result", "script": {"build": {"kind": "pass", "launch": LAUNCH3, "build_sboms": dup_sb, "launch_sboms": list(reversed(dup_sb))}}})
    # the SBOM set of a layer shrinks (formats written earlier in the same build, or restored, are no
    # longer provided): whatever the implementation does with the superseded files must not leave
    # process-dependent traces
    out.append({"phase": "build", "label": "sbom-set-shrinks:write_sboms", "script": {"build": {"kind": "pass", "ops": [{"op": "cached", "name": "a", "launch": True}, {"op": "write_sboms", "name": "a", "sboms": SB3}, {"op": "write_sboms", "name": "a", "sboms": SB3[:1]}]}}})
    pre_sb = {"a.toml": "[metadata]\nk1 = 1\n", "a/keep": "k", "a.sbom.cdx.json": "{\"old\":1}", "a.sbom.spdx.json": "{\"old\":2}", "a.sbom.syft.json": "{\"old\":3}"}
    for strat in ("update", "recreate"):
        out.append({"phase": "build", "label": f"sbom-set-shrinks:handle-{strat}", "pre": pre_sb, "script": {"build": {"kind": "pass", "ops": [{"op": "handle", "name": "a", "types": [True, True, True], "strategy": strat, "result": dict(RESULT3, sboms=SB3[1:2])}]}}})
    # process scopes whose names lie outside the process-type grammar and differ only in such
    # characters (Scope::Process takes any string): each keeps its own directory and value
    odd_env = [["process:web worker", "override", "C", "4"], ["process:web_worker", "override", "C", "5"], ["process:web.worker", "override", "C", "6"], ["process:web-worker", "append", "C", "7"]]
    out.append({"phase": "build", "label": "process-scopes-odd-names:write_env", "script": {"build": {"kind": "pass", "ops": [{"op": "cached", "name": "a", "launch": True}, {"op": "write_env", "name": "a", "env": odd_env}]}}})
    out.append({"phase": "build", "label": "process-scopes-odd-names:handle", "script": {"build": {"kind": "pass", "ops": [{"op": "handle", "name": "a", "types": [True, True, True], "strategy": "recreate", "result": dict(RESULT3, env=odd_env)}]}}})
    # a restored layer whose env directories hold aliasing files (NAME and NAME.override, written by
    # other tooling), read and written back by three routes
    pre = {"a.toml": "[metadata]\nk1 = 1\nk2 = 2\nk3 = 3\n", "a/env/RAILS_ENV": "production", "a/env/RAILS_ENV.override": "staging",
           "a/env.launch/web/X": "1", "a/env.launch/web/X.override": "2", "a/env.build/Y.override": "b", "a/env.build/Y": "a", "a/keep": "k"}
    for label, ops in (("aliasing-env:rewrite", [{"op": "cached", "name": "a", "build": True}, {"op": "rewrite_env", "name": "a"}]),
                       ("aliasing-env:handle-keep", [{"op": "handle", "name": "a", "types": [True, True, True], "strategy": "keep", "result": RESULT3}]),
                       ("aliasing-env:handle-update", [{"op": "handle", "name": "a", "types": [True, True, True], "strategy": "update", "result": dict(RESULT3, env=None)}])):
        out.append({"phase": "build", "label": label, "pre": pre, "script": {"build": {"kind": "pass", "ops": ops}}})
    return out


def order_for(seed, keys):
    r = subprocess.run([OPRUNNER, "--hashorder"] + keys, env={"LD_PRELOAD": SHIM, "VERIF_HASH_SEED": str(seed)}, stdout=subprocess.PIPE)
    return r.stdout.decode().split()


def witness_seeds(limit=400):
    need = {i: set(itertools.permutations(ks)) for i, ks in enumerate(KEYSETS)}
    seeds = []
    seen = {i: {} for i in need}
    for seed in range(1, limit):
        useful = False
        for i, ks in enumerate(KEYSETS):
            o = tuple(order_for(seed, ks))
            if o in need[i] and o not in seen[i]:
                seen[i][o] = seed
                useful = True
        if useful:
            seeds.append(seed)
        if all(len(seen[i]) == len(need[i]) for i in need):
            return seeds, {i: len(seen[i]) for i in seen}
    return seeds, {i: len(seen[i]) for i in seen}


def run_one(arg):
    idx, sc, seed, scratch, tag = arg
    w = World(os.path.join(scratch, f"c20-{idx}-{seed}-{tag}"))
    script = dict(sc["script"])
    script["dump"] = None
    for rel, content in sc.get("pre", {}).items():
        fp = w.p("layers", rel)
        os.makedirs(os.path.dirname(fp), exist_ok=True)
        open(fp, "w").write(content)
    # a second source directory whose name sorts before the buildpack directory in one run and
    # after it in the next (temp paths differ between runs; only their content is an input)
    if seed % 2:
        # every source file carries the same time stamp in this run
        for n in os.listdir(w.p("bp", "src")):
            os.utime(w.p("bp", "src", n), (1_000_000_000, 1_000_000_000))
    alt = w.p("aaa-alt" if seed % 2 else "zzz-alt")
    os.makedirs(alt)
    for n in ("p1", "p2", "p3"):
        open(os.path.join(alt, n), "w").write(f"#!/bin/sh\necho alt-{n}\n")
        os.chmod(os.path.join(alt, n), 0o755)
    r = w.run(sc["phase"], script, extra_env={"VERIF_HASH_SEED": str(seed), "VERIF_ALT_SRC": alt}, preload=SHIM)
    snap = snapshot(w.root)
    # outputs only: layers dir and the build plan
    out = {k: v for k, v in snap.items() if k.startswith("layers") or k == "plan.toml"}
    shutil.rmtree(w.root, ignore_errors=True)
    return r.returncode, out


def run(ctx):
    ensure_vb()
    res = Result(ctx, "exploration")
    if not os.path.exists(SHIM):
        raise Machinery("libdetrand.so not built")
    # the shim must own the hash seed: same seed => same order, and at least two orders exist
    if order_for(5, KEYSETS[0]) != order_for(5, KEYSETS[0]):
        raise Machinery("hash seed is not controlled by the shim")
    seeds, cover = witness_seeds()
    if any(c < 6 for c in cover.values()):
        raise Machinery(f"seed search did not witness all iteration orders: {cover}")
    scs = scenarios(ctx.thorough)
    if ctx.replay:
        lab = json.load(open(ctx.replay))["replay"]["label"]
        scs = [s for s in scs if s["label"] == lab]
    jobs = []
    for i, sc in enumerate(scs):
        for s in seeds:
            jobs.append((i, sc, s, ctx.scratch, "a"))
        jobs.append((i, sc, seeds[0], ctx.scratch, "again"))
    results = {}
    with ProcessPoolExecutor(max_workers=16) as ex:
        for job, r in zip(jobs, ex.map(run_one, jobs, chunksize=8)):
            results.setdefault(job[0], []).append((job[2], job[4], r))
    distinct_docs = set()
    for i, sc in enumerate(scs):
        runs = results[i]
        base_seed, _, (code0, out0) = runs[0]
        if code0 != 0 and "missing" not in sc["label"] and not sc["label"].startswith("layer-named-"):
            raise Machinery(f"C20 scenario {sc['label']} fails on its own: exit {code0}")
        distinct_docs.add(json.dumps(sorted((k, str(v)) for k, v in out0.items())))
        for seed, tag, (code, out) in runs[1:]:
            if code != code0 or out != out0:
                diff = [k for k in sorted(set(out) | set(out0)) if out.get(k) != out0.get(k)]
                what = f"scenario {sc['label']}: outputs differ between hash seed {base_seed} and {seed}: {[(k, str(out0.get(k))[:120], str(out.get(k))[:120]) for k in diff[:3]]}"
                kind = re.sub(r"\d+", "N", diff[0].split("/")[-1]) if diff else "exit"
                if tag == "again" and seed == base_seed:
                    # the hash seed is owned (probed above), so this is a non-hash source (pid, time, ...)
                    kind = "same-seed:" + kind
                kind = "layer-toml" if kind.endswith(".toml") and kind not in ("launch.toml", "store.toml", "plan.toml") else kind
                res.violation(f"output-differs:{kind}", what, {"label": sc["label"], "seeds": [base_seed, seed]})
                if ctx.replay:
                    print("DIFFERENCE:", what)
    res.cov("evaluations", len(jobs))
    res.cov("scenarios", len(scs))
    res.cov("witness_seeds", seeds)
    res.cov("iteration_orders_witnessed", cover)
    res.cov("distinct_nontrivial", len(distinct_docs))
    res.cov("determinism_replays", len(scs))
    res.cov("rule", "scenarios = every sequence of <=2 (quick)/<=3 (thorough) blocks over {cached, cached->delete, uncached, cached+4 writes with 3-key collections, handle create/keep/update with 3-key results, and two failing exec.d operations} on one layer throughout and alternating over two layer names, each finished with a build result holding 3 processes/labels, nested store tables and 3+2 SBOMs, plus a results-only build and a detect plan with or-groups and 3-key metadata; each run once per witness seed (all 3! iteration orders of four 3-key sets witnessed) in fresh processes and directories, plus one seed twice; distinct_nontrivial = distinct output trees")
    res.cov("bound", {"keys_per_unordered_collection": 3, "sequence_depth": 3 if ctx.thorough else 2})
    res.cov("exhaustive", True)
    res.sample({"scenario": scs[len(scs) // 2]["label"], "seeds": seeds})
    res.sample({"scenario": scs[-1]["label"]})
    res.assume("std HashMap/HashSet RandomState is the only hash-order source (seeded through getrandom); ASLR/time are not controlled but hashed nowhere; collections larger than 3 keys are outside the bound")
    return res.done()
