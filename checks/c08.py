"""C08 — strict parsing: generated corpus of spec-conforming documents (all optional-key subsets,
one table at a time) and every single-point mutation; parsed by the real libcnb types
(data-mc c08parse); oracle = the schema below (Buildpack API 0.10) with spec defaults."""
import copy
import itertools
import json
import os
import subprocess

import tomlgen
from common import Result, Machinery, TARGET


class Meta:
    """free-form metadata: a tagged value (never mutated)"""

    def __init__(self, tagged):
        self.tagged = tagged


class Raw:
    """a retyped scalar given directly as a tagged value"""

    def __init__(self, tagged):
        self.tagged = tagged


SBOMS = ["application/vnd.cyclonedx+json", "application/spdx+json", "application/vnd.syft+json"]
META = Meta(("t", {"k": ("s", "v"), "n": ("t", {"d": ("d", "1979-05-27"), "l": ("a", [("i", 1)])})}))

# schema: table kind -> (required keys, optional keys with spec default)
SCHEMA = {
    "component": (["api", "buildpack"], {"stacks": [], "targets": [], "metadata": None}),
    "composite": (["api", "buildpack", "order"], {"metadata": None}),
    "buildpack": (["id", "version"], {"name": None, "homepage": None, "description": None, "keywords": [], "licenses": [], "clear-env": False, "sbom-formats": []}),
    "license": ([], {"type": None, "uri": None}),
    "stack": (["id"], {"mixins": []}),
    "target": ([], {"os": None, "arch": None, "variant": None, "distros": []}),
    "distro": (["name", "version"], {}),
    "order": (["group"], {}),
    "group": (["id", "version"], {"optional": False}),
    "plan": ([], {"entries": []}),
    "entry": (["name"], {"metadata": Meta(("t", {}))}),
    "layer": ([], {"types": None, "metadata": None}),
    "types": ([], {"launch": False, "build": False, "cache": False}),
    "launch": ([], {"processes": [], "labels": [], "slices": []}),
    "process": (["type", "command"], {"args": [], "default": False, "working-dir": None}),
    "label": (["key", "value"], {}),
    "slice": (["paths"], {}),
    "store": (["metadata"], {}),
    "package": (["buildpack"], {"dependencies": [], "platform": {"os": "linux"}}),
    "pkgbp": (["uri"], {}),
    "dep": (["uri"], {}),
    "platform": (["os"], {}),
}
# pinned: present in every document and never deleted (optionality cannot be established offline)
PINNED = {("distro", "name"), ("distro", "version"), ("store", "metadata"), ("platform", "os")}


def kind_of(fmt, path):
    """table kind of the dict at `path` (tuple of keys / indexes)"""
    names = [p for p in path if isinstance(p, str)]
    if not names:
        return {"buildpack-component": "component", "buildpack-composite": "composite"}.get(fmt, fmt)
    last = names[-1]
    table = {"buildpack": "pkgbp" if fmt == "package" else "buildpack", "licenses": "license", "stacks": "stack", "targets": "target", "distros": "distro",
             "order": "order", "group": "group", "entries": "entry", "types": "types", "processes": "process", "labels": "label", "slices": "slice",
             "dependencies": "dep", "platform": "platform"}
    return table[last]


def full_docs():
    bp = {"id": "verif/x", "version": "1.2.3", "name": "N", "homepage": "https://h", "description": "D", "keywords": ["a", "b"],
          "licenses": [{"type": "MIT", "uri": "https://l"}, {}], "clear-env": True, "sbom-formats": [SBOMS[0], SBOMS[2]]}
    return {
        "buildpack-component": {"api": "0.10", "buildpack": copy.deepcopy(bp), "stacks": [{"id": "*", "mixins": ["build:git", "run:curl"]}, {"id": "io.s", "mixins": ["build:jq", "w"]}, {"id": "*"}],
                                "targets": [{"os": "linux", "arch": "arm", "variant": "v8", "distros": [{"name": "ubuntu", "version": "24.04"}, {"name": "d", "version": "1"}]},
                                            # spellings other tools normalise (case, x86_64 for amd64): here they are opaque strings
                                            {"os": "Linux", "arch": "x86_64", "variant": "V8", "distros": [{"name": "Ubuntu", "version": "24.04.1 LTS"}]}, {"os": "macos", "arch": "aarch64"}, {}],
                                "metadata": META},
        "buildpack-composite": {"api": "0.10", "buildpack": copy.deepcopy(bp), "order": [{"group": [{"id": "a/b", "version": "0.0.1", "optional": True}, {"id": "c", "version": "1.0.0"}]}, {"group": [{"id": "d", "version": "2.0.0"}]}], "metadata": META},
        # the same name may be required several times (by several buildpacks, with different metadata)
        "plan": {"entries": [{"name": "x", "metadata": META}, {"name": "y"}, {"name": "x", "metadata": Meta(("t", {"k": ("s", "other"), "extra": ("i", 2)}))}, {"name": "y"}]},
        "layer": {"types": {"launch": True, "build": True, "cache": True}, "metadata": META},
        "launch": {"processes": [{"type": "web", "command": ["c", "d"], "args": ["a"], "default": True, "working-dir": "/w d"}, {"type": "w", "command": []},
                                 {"type": "dot", "command": ["c"], "working-dir": "."}, {"type": "dotslash", "command": ["c"], "working-dir": "./"}],
                   "labels": [{"key": "k", "value": "v"}], "slices": [{"paths": ["*.a", "b"]}, {"paths": []}]},
        "store": {"metadata": META},
        "package": {"buildpack": {"uri": "."}, "dependencies": [{"uri": "libcnb:x/y"}, {"uri": "docker://r/i"}, {"uri": "docker://REGISTRY.Example.com/a/../b/%7Euser/./img"}, {"uri": "https://Example.COM:443/x%2Fy"}], "platform": {"os": "windows"}},
    }


def tables(doc, path=()):
    """paths of all dicts outside metadata"""
    out = [path]
    for k, v in doc.items():
        if isinstance(v, dict):
            out += tables(v, path + (k,))
        elif isinstance(v, list):
            for i, e in enumerate(v):
                if isinstance(e, dict):
                    out += tables(e, path + (k, i))
    return out


def get(doc, path):
    for p in path:
        doc = doc[p]
    return doc


def scalars(doc, path=()):
    """paths of all scalar leaves outside metadata (incl. elements of scalar arrays)"""
    out = []
    items = doc.items() if isinstance(doc, dict) else enumerate(doc)
    for k, v in items:
        if isinstance(v, (Meta, Raw)):
            continue
        if isinstance(v, (dict, list)):
            out += scalars(v, path + (k,))
        else:
            out.append(path + (k,))
    return out


def to_tagged(x):
    if isinstance(x, (Meta, Raw)):
        return x.tagged
    if isinstance(x, bool):
        return ("b", x)
    if isinstance(x, str):
        return ("s", x)
    if isinstance(x, list):
        return ("a", [to_tagged(e) for e in x])
    if isinstance(x, dict):
        return ("t", {k: to_tagged(v) for k, v in x.items()})
    raise ValueError(repr(x))


def emit(doc):
    return tomlgen.emit_table_body({k: to_tagged(v) for k, v in doc.items()})


def valid_docs():
    out = []
    for fmt, full in full_docs().items():
        out.append((fmt, full, "full"))
        if fmt.startswith("buildpack"):
            # optional text keys present but empty: present is not omitted
            d = copy.deepcopy(full)
            d["buildpack"].update({"name": "", "homepage": "", "description": "", "keywords": [""]})
            out.append((fmt, d, "empty strings for the optional text keys"))
            # the api key is a version like any other: no other key's acceptance depends on it
            for api in ("1.0", "2.3", "0.9"):
                d = copy.deepcopy(full)
                d["api"] = api
                out.append((fmt, d, f"api {api}"))
        # minimal: every optional key removed everywhere
        mini = copy.deepcopy(full)
        changed = True
        while changed:
            changed = False
            for tp in tables(mini):
                t = get(mini, tp)
                req, opt = SCHEMA[kind_of(fmt, tp)]
                for k in list(t):
                    if k in opt and (kind_of(fmt, tp), k) not in PINNED:
                        del t[k]
                        changed = True
                        break
                if changed:
                    break
        out.append((fmt, mini, "minimal"))
        # one table at a time: every subset of its optional keys removed (cap 2^6)
        for tp in tables(full):
            req, opt = SCHEMA[kind_of(fmt, tp)]
            present = [k for k in get(full, tp) if k in opt and (kind_of(fmt, tp), k) not in PINNED]
            vary = present[:6]
            for r in range(1, len(vary) + 1):
                for sub in itertools.combinations(vary, r):
                    d = copy.deepcopy(full)
                    t = get(d, tp)
                    for k in sub:
                        del t[k]
                    for k in present[6:]:
                        if r % 2:
                            del t[k]
                    out.append((fmt, d, f"{'/'.join(map(str, tp)) or '<root>'} without {sorted(sub)}"))
    return out


def with_defaults(fmt, doc, path=()):
    """expected parse result: the document with spec defaults for omitted optional keys"""
    kind = kind_of(fmt, path)
    req, opt = SCHEMA[kind]
    out = {}
    for k in list(req) + list(opt):
        if k in doc:
            v = doc[k]
        else:
            v = copy.deepcopy(opt.get(k))
        if isinstance(v, Meta):
            out[k] = ("meta", v.tagged)
        elif isinstance(v, dict):
            out[k] = with_defaults(fmt, v, path + (k,))
        elif isinstance(v, list):
            out[k] = [with_defaults(fmt, e, path + (k, i)) if isinstance(e, dict) else e for i, e in enumerate(v)]
        else:
            out[k] = v
    return out


def norm_dump(fmt, dump):
    """bring the Rust dump into the same shape as with_defaults()"""
    def meta(j):
        return None if j is None else ("meta", tomlgen.from_vbjson(j))

    if fmt.startswith("buildpack"):
        b = dump["buildpack"]
        bp = {"id": b["id"], "version": b["version"], "name": b["name"], "homepage": b["homepage"], "description": b["description"], "keywords": b["keywords"],
              "licenses": b["licenses"], "clear-env": b["clear_env"], "sbom-formats": b["sbom_formats"]}
        if dump["class"] == "component":
            return {"api": dump["api"], "buildpack": bp, "stacks": dump["stacks"], "targets": dump["targets"], "metadata": meta(dump["metadata"])}
        return {"api": dump["api"], "buildpack": bp, "order": dump["order"], "metadata": meta(dump["metadata"])}
    if fmt == "plan":
        return {"entries": [{"name": e["name"], "metadata": meta(e["metadata"])} for e in dump["entries"]]}
    if fmt == "layer":
        return {"types": dump["types"], "metadata": meta(dump["metadata"])}
    if fmt == "store":
        return {"metadata": meta(dump["metadata"])}
    return dump


def same_expected(a, b):
    if isinstance(a, tuple) and a and a[0] == "meta":
        return isinstance(b, tuple) and b[0] == "meta" and tomlgen.same(a[1], b[1])
    if isinstance(a, dict):
        return isinstance(b, dict) and set(a) == set(b) and all(same_expected(a[k], b[k]) for k in a)
    if isinstance(a, list):
        return isinstance(b, list) and len(a) == len(b) and all(same_expected(x, y) for x, y in zip(a, b))
    return a == b


RETYPE = {"str": [("i", 1), ("b", True), ("f", 1.5), ("d", "1979-05-27"), ("a", [])], "bool": [("s", "true"), ("i", 1), ("f", 1.5), ("d", "1979-05-27"), ("a", [])]}


# names the spec uses somewhere (in this or a sibling format, or in earlier API versions): the
# unknown keys most likely to be accepted by an alias, a flattened struct or a compatibility shim
VOCAB = sorted({k for req, opt in SCHEMA.values() for k in list(req) + list(opt)} | {
    "extension", "extensions", "stack", "target", "distro", "exclude", "include", "path", "direct", "run-image", "build-image", "mixin", "env",
    "process", "label", "slice", "entry", "require", "provide", "requires", "provides", "or", "exec-env", "launch", "build", "cache", "type", "clear_env", "sbom_formats", "working_dir", "working-directory"})


def names_only(path):
    return "/".join(p for p in path if isinstance(p, str)) or "<root>"


def structural_mutants(fmt, doc):
    """mutations beyond the single scalar: spec-vocabulary keys as unknown keys, a required key
    renamed to a vocabulary word (two-point), and table / array-of-tables / metadata positions
    given a value of another kind"""
    out = []
    for tp in tables(doc):
        req, opt = SCHEMA[kind_of(fmt, tp)]
        defined = set(req) | set(opt)
        here = get(doc, tp)
        for w in VOCAB:
            if w in defined or w in here:
                continue
            for val in (("b", True), ("s", "x")):
                d = copy.deepcopy(doc)
                get(d, tp)[w] = Raw(val)
                out.append((d, "unknown-key", f"spec-vocabulary key {w} = {val[1]!r} inserted at {names_only(tp)}"))
            for k in req:
                if k not in here:
                    continue
                d = copy.deepcopy(doc)
                t = get(d, tp)
                t[w] = t.pop(k)
                out.append((d, "missing-required-key", f"required key {k} at {names_only(tp)} renamed to {w}"))
    # table positions
    for tp in tables(doc):
        if not tp:
            continue
        t = get(doc, tp)
        alts = [("array", ("a", [to_tagged(v) for v in t.values()])), ("string", ("s", "x")), ("datetime", ("d", "1979-05-27")), ("empty-array", ("a", []))]
        for name, tagged in alts:
            if isinstance(tp[-1], int) and name == "empty-array":
                continue
            d = copy.deepcopy(doc)
            get(d, tp[:-1])[tp[-1]] = Raw(tagged)
            out.append((d, f"table-given-as-{name}:{names_only(tp)}", f"table at {'/'.join(map(str, tp))} replaced by a {name}"))
    # arrays of scalars given as one scalar (the pre-0.9 single-string forms and friends)
    def walk_scalar_arrays(node, path):
        items = node.items() if isinstance(node, dict) else enumerate(node)
        for k, v in items:
            if isinstance(v, (Meta, Raw)):
                continue
            if isinstance(v, list) and (not v or all(isinstance(e, str) for e in v)):
                for name, tagged in (("string", ("s", v[0] if v else "x")), ("integer", ("i", 1)), ("boolean", ("b", True))):
                    d = copy.deepcopy(doc)
                    get(d, path)[k] = Raw(tagged)
                    out.append((d, f"array-given-as-{name}:{names_only(path + (k,))}", f"array at {'/'.join(map(str, path + (k,)))} replaced by a {name}"))
            elif isinstance(v, (dict, list)):
                walk_scalar_arrays(v, path + (k,))
    walk_scalar_arrays(doc, ())
    # arrays of tables given as a single table; free-form metadata given as a non-table
    def walk(node, path):
        items = node.items() if isinstance(node, dict) else enumerate(node)
        for k, v in items:
            if isinstance(v, Meta):
                for name, tagged in (("datetime", ("d", "1979-05-27")), ("string", ("s", "x")), ("array", ("a", [("i", 1)])), ("integer", ("i", 1))):
                    d = copy.deepcopy(doc)
                    get(d, path)[k] = Raw(tagged)
                    out.append((d, f"metadata-given-as-{name}:{names_only(path + (k,))}", f"free-form metadata table at {'/'.join(map(str, path + (k,)))} replaced by a {name}"))
            elif isinstance(v, list) and v and all(isinstance(e, dict) for e in v):
                d = copy.deepcopy(doc)
                get(d, path)[k] = Raw(to_tagged(v[0]))
                out.append((d, f"array-of-tables-given-as-table:{names_only(path + (k,))}", f"array of tables at {'/'.join(map(str, path + (k,)))} replaced by its first element"))
                walk(v, path + (k,))
            elif isinstance(v, (dict, list)) and not isinstance(v, Raw):
                walk(v, path + (k,))
    walk(doc, ())
    return out


def mutants(fmt, doc):
    out = []
    for tp in tables(doc):
        d = copy.deepcopy(doc)
        get(d, tp)["zzz"] = Raw(("i", 1))
        out.append((d, "unknown-key", f"zzz = 1 inserted at {'/'.join(map(str, tp)) or '<root>'}"))
        req, _ = SCHEMA[kind_of(fmt, tp)]
        for k in req:
            if (kind_of(fmt, tp), k) in PINNED or k not in get(doc, tp):
                continue
            d = copy.deepcopy(doc)
            del get(d, tp)[k]
            if fmt == "buildpack-composite" and tp == () and k == "order":
                out.append((d, "becomes-component", "order removed from a composite"))
            else:
                out.append((d, "missing-required-key", f"required key {k} removed at {'/'.join(map(str, tp)) or '<root>'}"))
    for sp in scalars(doc):
        cur = get(doc, sp)
        alts = list(RETYPE["bool" if isinstance(cur, bool) else "str"])
        # a scalar given as a table: empty, and keyed by the scalar's own value (the map form serde accepts for enums)
        alts.append(("t", {}))
        if isinstance(cur, str) and cur:
            alts.append(("t", {cur: ("t", {})}))
        for alt in alts:
            d = copy.deepcopy(doc)
            parent = get(d, sp[:-1])
            parent[sp[-1]] = Raw(alt)
            kind = "wrong-kind" if alt[0] != "t" else f"scalar-given-as-table:{names_only(sp)}"
            out.append((d, kind, f"{'/'.join(map(str, sp))} retyped to {alt}"))
    if fmt == "buildpack-component" and (doc.get("stacks") or doc.get("targets")):
        d = copy.deepcopy(doc)
        d["order"] = [{"group": [{"id": "a/b", "version": "0.0.1"}]}]
        out.append((d, "order-with-targets-or-stacks", "order added to a component that has stacks/targets"))
    if fmt == "buildpack-composite":
        for k, v in (("targets", [{"os": "linux"}]), ("stacks", [{"id": "*"}])):
            d = copy.deepcopy(doc)
            d[k] = v
            out.append((d, "order-with-targets-or-stacks", f"{k} added to a composite"))
    return out


def run(ctx):
    res = Result(ctx, "exploration")
    docs = valid_docs()
    cases = []
    for fmt, doc, label in docs:
        cases.append({"fmt": fmt, "doc": doc, "label": label, "mut": None})
        # thorough: mutate every valid document; quick: the full and minimal ones plus every 5th
        for d, kind, what in mutants(fmt, doc):
            cases.append({"fmt": fmt, "doc": d, "label": f"{label}; {what}", "mut": kind})
        if label in ("full", "minimal"):
            for d, kind, what in structural_mutants(fmt, doc):
                cases.append({"fmt": fmt, "doc": d, "label": f"{label}; {what}", "mut": kind, "structural": True})
    if not ctx.thorough:
        keep = []
        for i, c in enumerate(cases):
            if c["mut"] is None or c.get("structural") or "full" in c["label"].split(";")[0] or "minimal" in c["label"].split(";")[0] or i % 5 == 0:
                keep.append(c)
        cases = keep
    if ctx.replay:
        want = json.load(open(ctx.replay))["replay"]["label"]
        cases = [c for c in cases if c["label"] == want]
    inp = os.path.join(ctx.scratch, "c08.in.jsonl")
    outp = os.path.join(ctx.scratch, "c08.out.jsonl")
    with open(inp, "w") as f:
        for i, c in enumerate(cases):
            c["toml"] = emit(c["doc"])
            f.write(json.dumps({"id": i, "format": "buildpack" if c["fmt"].startswith("buildpack") else c["fmt"], "toml": c["toml"]}) + "\n")
    r = subprocess.run([os.path.join(TARGET, "data-mc"), "c08parse", inp, "--out", outp])
    if r.returncode != 0:
        raise Machinery("c08parse failed")
    n_valid = n_mut = 0
    kinds = {}
    for line in open(outp):
        o = json.loads(line)
        c = cases[o["id"]]
        fmt = c["fmt"]
        where = f"{fmt} [{c['label']}]: {c['toml']!r}"
        rep = {"label": c["label"], "toml": c["toml"]}
        if c["mut"] is None or c["mut"] == "becomes-component":
            n_valid += 1
            want_class = None
            doc = c["doc"]
            efmt = fmt
            if fmt.startswith("buildpack"):
                want_class = "composite" if "order" in doc else "component"
                efmt = "buildpack-" + want_class
            if not o["ok"]:
                res.violation(f"valid-rejected:{fmt}", f"{where} rejected: {o.get('err')}", rep)
                continue
            if want_class and o["dump"]["class"] != want_class:
                res.violation("misclassified", f"{where} classified {o['dump']['class']}, expected {want_class}", rep)
                continue
            if want_class and not o["direct_" + want_class]:
                res.violation(f"valid-rejected-by-direct-type:{want_class}", f"{where} is rejected by the {want_class} descriptor type", rep)
            got = norm_dump(efmt, o["dump"])
            want = with_defaults(efmt, doc)
            if not same_expected(want, got):
                diff = [k for k in want if not same_expected(want[k], got.get(k))]
                res.violation(f"values-differ:{fmt}", f"{where}: parsed {got}, document says {want} (differs in {diff})", rep)
        else:
            n_mut += 1
            kinds[c["mut"]] = kinds.get(c["mut"], 0) + 1
            if o["ok"]:
                res.violation(f"{c['mut']}-accepted:{fmt}", f"{where} was accepted (as {o['dump'].get('class', fmt)})", rep)
            elif fmt.startswith("buildpack") and (o["direct_component"] and fmt == "buildpack-component" or o["direct_composite"] and fmt == "buildpack-composite"):
                res.violation(f"{c['mut']}-accepted-by-direct-type:{fmt}", f"{where} accepted by the direct descriptor type", rep)
        if o["id"] in (0, len(cases) // 2, len(cases) - 1):
            res.sample({"label": c["label"], "toml": c["toml"], "accepted": o["ok"]})
    res.cov("evaluations", n_valid + n_mut)
    res.cov("valid_documents", n_valid)
    res.cov("mutants", n_mut)
    res.cov("mutants_by_kind", kinds)
    res.cov("distinct_nontrivial", n_mut)
    res.cov("rule", "valid corpus: for each of 7 formats the full document, the minimal document and, one table at a time, every subset of that table's optional keys removed; mutants (each applied to a valid document, one at a time): zzz=1 inserted into every table / array-of-tables element outside metadata, every required key deleted, every scalar (incl. string-array elements) retyped to each other kind, to [], to {} and to a table keyed by its own value, order added to a component with stacks/targets, targets/stacks added to a composite; on the full and the minimal document additionally: every word of the spec's vocabulary (keys of all formats, earlier API versions, sibling descriptors) inserted as an unknown key into every table, every required key renamed to every vocabulary word, every table position given as array / string / datetime, every array of tables given as a single table, every array of strings given as a string / integer / boolean, free-form metadata given as datetime / string / array / integer. Valid => accepted, classified and every field equal to the document with spec defaults; mutant => rejected. non-trivial = mutants")
    res.cov("bound", {"mutated_valid_documents": "all" if ctx.thorough else "full + minimal + every 5th case"})
    res.cov("exhaustive", True)
    res.assume("schema = Buildpack API 0.10 as restated in DESIGN C08; pinned keys (distro name/version, store.metadata, platform.os when [platform] is given, non-empty order/group) are always present and never deleted")
    res.assume("documents are emitted in inline-table form by an independent emitter")
    res.assume("URI schemes are written in lower case (the URI type of the uriparse crate stores known schemes case-normalised; scheme case is not judged)")
    return res.done()
