"""Driving the verification buildpack executable (`vb`, real libcnb runtime) in a controlled world."""
import json
import os
import shutil
import subprocess

from common import TARGET, Machinery

VB = os.path.join(TARGET, "vb")

VALID_BP_TOML = '''api = "0.10"

[buildpack]
id = "verif/vb"
version = "1.2.3"

[[targets]]
os = "linux"
arch = "amd64"
'''

DEFAULT_TARGET_ENV = {
    "CNB_TARGET_OS": "linux",
    "CNB_TARGET_ARCH": "amd64",
    "CNB_TARGET_DISTRO_NAME": "ubuntu",
    "CNB_TARGET_DISTRO_VERSION": "24.04",
}


class World:
    """One private directory tree: app/, bp/, layers/, platform/, plan files, script, marker log."""

    def __init__(self, root):
        self.root = root
        shutil.rmtree(root, ignore_errors=True)
        for d in ("app", "bp", "bp/src", "layers", "platform", "platform/env"):
            os.makedirs(os.path.join(root, d))
        self.p = lambda *a: os.path.join(root, *a)
        with open(self.p("bp", "buildpack.toml"), "w") as f:
            f.write(VALID_BP_TOML)
        with open(self.p("bp_plan.toml"), "w") as f:
            f.write("")
        for prog in ("p1", "p2", "p3"):
            with open(self.p("bp", "src", prog), "w") as f:
                f.write(f"#!/bin/sh\necho {prog}\n")
            os.chmod(self.p("bp", "src", prog), 0o755)
        self.log = self.p("markers.log")
        self.dump = self.p("dump.json")
        self.script_path = self.p("script.json")

    def run(self, phase, script, arg0=None, args=None, env=None, bpdir=True, extra_env=None, cwd=None, preload=None, timeout=60, exe=None):
        script = dict(script)
        script.setdefault("log", self.log)
        script.setdefault("dump", self.dump)
        with open(self.script_path, "w") as f:
            json.dump(script, f)
        e = {}
        e.update(DEFAULT_TARGET_ENV if env is None else env)
        if bpdir:
            e["CNB_BUILDPACK_DIR"] = self.p("bp")
        e["VB_SCRIPT"] = self.script_path
        # an unrelated variable of the buildpack process that is not valid Unicode (a Latin-1 value
        # exported by the platform): no concern of the framework
        e["VERIF_UNRELATED_LATIN1"] = "caf\udce9"
        # a stale PWD inherited from whoever spawned the platform: it names another existing directory
        e["PWD"] = self.p("bp")
        if extra_env:
            e.update(extra_env)
        if preload:
            e["LD_PRELOAD"] = preload
        if args is None:
            if phase == "detect":
                args = [self.p("platform"), self.p("plan.toml")]
            else:
                args = [self.p("layers"), self.p("platform"), self.p("bp_plan.toml")]
        argv0 = arg0 if arg0 is not None else phase
        r = subprocess.run([argv0] + list(args), executable=exe or VB, env=e, cwd=cwd or self.p("app"),
                           stdout=subprocess.PIPE, stderr=subprocess.PIPE, timeout=timeout)
        return r

    def markers(self):
        if not os.path.exists(self.log):
            return []
        return [l.split(" ")[0] for l in open(self.log).read().splitlines() if l]

    def marker_lines(self):
        if not os.path.exists(self.log):
            return []
        return open(self.log).read().splitlines()

    def clear_markers(self):
        for p in (self.log, self.dump):
            if os.path.exists(p):
                os.unlink(p)


def read_bytes(path):
    try:
        with open(path, "rb") as f:
            return f.read()
    except FileNotFoundError:
        return None
    except IsADirectoryError:
        return b"<dir>"


def ensure_vb():
    if not os.path.exists(VB):
        raise Machinery("vb executable not built")
