"""C05 — detect/build exit statuses and outputs: the complete decision table executed against the
real runtime (vb = libcnb::buildpack_main! around a scripted buildpack)."""
import itertools
import json
import os
import tomllib
from concurrent.futures import ProcessPoolExecutor

from common import Result, Machinery
from vbcommon import World, VALID_BP_TOML, DEFAULT_TARGET_ENV, read_bytes, ensure_vb

# the third form is how the lifecycle invokes a buildpack: <buildpack dir>/bin/<phase>
ARG0 = ["PHASE", "other", "BPDIR/bin/PHASE", "PHASE.bak"]
BP_TOML = {
    "valid": VALID_BP_TOML,
    "api-0.9": VALID_BP_TOML.replace('"0.10"', '"0.9"'),
    "api-0.11": VALID_BP_TOML.replace('"0.10"', '"0.11"'),
    "api-1": VALID_BP_TOML.replace('"0.10"', '"1"'),
    "api-missing": VALID_BP_TOML.replace('api = "0.10"\n', ""),
    "malformed": 'api = "0.10"\n[buildpack\n',
    "file-missing": None,
    "unknown-key": VALID_BP_TOML + "\n[zzz]\nq = 1\n",
    # a complete descriptor that is not a text file: one byte that is not UTF-8, inside a comment
    "non-utf8-comment": VALID_BP_TOML.encode() + b"\n# caf\xe9\n",
    # a valid descriptor that declares one SBOM format; the build result may still carry others
    "valid-sbom-formats": VALID_BP_TOML.replace('version = "1.2.3"\n', 'version = "1.2.3"\nsbom-formats = ["application/vnd.cyclonedx+json"]\n'),
}
assert "sbom-formats" in BP_TOML["valid-sbom-formats"]
VALID_TOMLS = ("valid", "valid-sbom-formats")
MANDATORY = ["CNB_TARGET_OS", "CNB_TARGET_ARCH", "CNB_TARGET_DISTRO_NAME", "CNB_TARGET_DISTRO_VERSION"]

# two processes are flagged default: what the buildpack returned is what is written (the lifecycle judges it)
LAUNCH = {"processes": [{"type": "web", "command": ["run"], "args": ["a b"], "default": True}, {"type": "console", "command": ["sh"], "default": True}], "labels": [["k", "v"]], "slices": [["static/**"]]}
# the launch configuration is set twice on the result builder: what was set last is the result
LAUNCH_FIRST = {"processes": [{"type": "superseded", "command": ["old"]}], "labels": [["old", "1"]], "slices": [["old/*"]]}
STORE = {"k": "v", "n": {"x": 1}}
BUILD_SBOMS = [[], [["cdx", "{\"b\":1}"]], [["cdx", "{\"b\":1}"], ["syft", "{\"b\":2}"]]]
# the last set shares the cdx format with the build SBOM sets (same file extension, different files)
LAUNCH_SBOMS = [[], [["spdx", "{\"l\":1}"]], [["cdx", "{\"l\":2}"], ["spdx", "{\"l\":1}"]]]
SBOM_EXT = {"cdx": "cdx.json", "spdx": "spdx.json", "syft": "syft.json"}

DETECT_BEH = ["pass", "pass_plan", "fail", "error"]
PLAN_CALLS = [["provides", "a"], ["requires", "b"], ["or"], ["provides", "c"]]


def build_behaviours():
    out = []
    for launch in (False, True):
        for store in (False, True, "empty"):
            for bs in range(len(BUILD_SBOMS)):
                for ls in range(len(LAUNCH_SBOMS)):
                    out.append(("pass", launch, store, bs, ls))
    out.append(("error", False, False, 0, 0))
    out.append(("layer_error", False, False, 0, 0))
    return out


BUILD_BEH = build_behaviours()
_PAD = "".join(f"stale_key_{i} = \"stale value {i} {'x' * 40}\"\n" for i in range(12))
# stale outputs are LONGER than anything the runtime writes: an in-place overwrite that does not
# truncate leaves trailing bytes/keys behind
STALE = {
    "plan.toml": ("stale = true\n" + _PAD).encode(),
    "layers/launch.toml": ("# stale launch\n" + _PAD).encode(),
    "layers/store.toml": ("[metadata]\nold = 1\n" + _PAD).encode(),
    "layers/build.sbom.cdx.json": b"stale-build-cdx" * 20,
    "layers/build.sbom.spdx.json": b"stale-build-spdx" * 20,
    "layers/launch.sbom.spdx.json": b"stale-launch-spdx" * 20,
    "layers/launch.sbom.syft.json": b"stale-launch-syft" * 20,
}
OUTPUTS = list(STALE.keys())


def default_cfg(phase):
    return {"phase": phase, "arg0": 0, "argc": 2 if phase == "detect" else 3, "toml": "valid", "bpdir": True,
            "env": {k: True for k in MANDATORY}, "variant": False, "beh": 0, "stale": False}


def deviations(cfg):
    d = default_cfg(cfg["phase"])
    n = 0
    for k in ("arg0", "argc", "toml", "bpdir", "variant", "stale"):
        if cfg[k] != d[k]:
            n += 1
    n += sum(1 for k in MANDATORY if not cfg["env"][k])
    return n


def all_cfgs(thorough):
    for phase in ("detect", "build"):
        nbeh = len(DETECT_BEH) if phase == "detect" else len(BUILD_BEH)
        for arg0 in range(len(ARG0)):
            for argc in range(0, 5):
                for toml in BP_TOML:
                    for bpdir in (True, False):
                        for envmask in range(16):
                            for variant in (False, True):
                                for stale in (False, True):
                                    base = {"phase": phase, "arg0": arg0, "argc": argc, "toml": toml, "bpdir": bpdir,
                                            "env": {k: bool(envmask & (1 << i)) for i, k in enumerate(MANDATORY)},
                                            "variant": variant, "stale": stale}
                                    dev = deviations(dict(base, beh=0))
                                    if not thorough and dev > 3:
                                        continue
                                    if thorough and dev > 3 and phase == "build":
                                        # the build behaviour table is large: full product up to 3
                                        # deviations, and every configuration with behaviour 0/last
                                        behs = [0, nbeh - 1]
                                    else:
                                        behs = range(nbeh)
                                    for beh in behs:
                                        yield dict(base, beh=beh)


def pathvar_cfgs():
    """every argument count with the lifecycle's path variables exported as well"""
    for phase in ("detect", "build"):
        for argc in range(0, 5):
            for beh in (0, 1):
                yield {"phase": phase, "arg0": 0, "argc": argc, "toml": "valid", "bpdir": True, "env": {k: True for k in MANDATORY}, "variant": False, "stale": False, "beh": beh, "pathvars": True}


def real_exe(phase):
    """a copy of the harness buildpack whose file name is the phase name (one per check process)"""
    import shutil
    import vbcommon
    d = os.path.join(os.path.dirname(vbcommon.VB), "vb-named-like-a-phase")
    p = os.path.join(d, phase)
    if not os.path.exists(p) or os.path.getmtime(p) < os.path.getmtime(vbcommon.VB):
        os.makedirs(d, exist_ok=True)
        tmp = f"{p}.{os.getpid()}"
        shutil.copy2(vbcommon.VB, tmp)
        os.replace(tmp, p)
    return p


def vbcommon_VB():
    import vbcommon
    return vbcommon.VB


def planpath_cfgs():
    for pp in (1, 2, 3, 4, 5):
        for beh in range(len(DETECT_BEH)):
            for stale in (False, True):
                yield {"phase": "detect", "arg0": 0, "argc": 2, "toml": "valid", "bpdir": True, "env": {k: True for k in MANDATORY}, "variant": False, "stale": stale, "beh": beh, "planpath": pp}


def missing_plan_cfgs():
    for beh in (0, 1, len(BUILD_BEH) - 1):
        for stale in (False, True):
            yield {"phase": "build", "arg0": 0, "argc": 3, "toml": "valid", "bpdir": True, "env": {k: True for k in MANDATORY}, "variant": False, "stale": stale, "beh": beh, "planpath": 6}


def reaches(cfg):
    """Reference: does this configuration reach detect/build code?"""
    if cfg.get("planpath") == 6:
        # build invoked with a buildpack plan path that does not exist: the plan is an input, the phase cannot start
        return False
    return (cfg["arg0"] in (0, 2) and cfg["argc"] == (2 if cfg["phase"] == "detect" else 3) and cfg["toml"] in VALID_TOMLS
            and cfg["bpdir"] and all(cfg["env"].values()))


def run_cfg(args):
    idx, cfg, scratch = args
    if cfg.get("kind") == "sequence":
        # in-process sequences of programmatic detect/build calls: the exit status and the files each
        # step leaves must be those of the same invocation alone in a fresh process (harness shared with C06)
        import c06
        import shutil
        import vbcommon
        c06.VBSEQ_PATH = os.path.join(os.path.dirname(vbcommon.VB), "vbseq")
        root = os.path.join(scratch, f"c05seq-{os.getpid()}-{idx}")
        try:
            v, o = c06.judge_sequence(root, cfg, compare="outputs")
            return [(sig, f"{what} [config {json.dumps(cfg)}]") for sig, what in v], o
        finally:
            shutil.rmtree(root, ignore_errors=True)
    w = World(os.path.join(scratch, f"w{idx % 64}-{os.getpid()}-{idx}"))
    try:
        return judge(w, cfg)
    finally:
        import shutil
        shutil.rmtree(w.root, ignore_errors=True)


def judge(w, cfg):
    phase = cfg["phase"]
    toml = BP_TOML[cfg["toml"]]
    bp = w.p("bp", "buildpack.toml")
    if toml is None:
        os.unlink(bp)
    elif isinstance(toml, bytes):
        open(bp, "wb").write(toml)
    else:
        open(bp, "w").write(toml)
    if cfg["stale"]:
        for rel, data in STALE.items():
            open(w.p(rel), "wb").write(data)
    env = {k: v for k, v in DEFAULT_TARGET_ENV.items() if cfg["env"][k]}
    if cfg.get("pathvars"):
        # the lifecycle also exports its paths (Buildpack API >= 0.8); libcnb takes them from the arguments
        env.update({"CNB_PLATFORM_DIR": w.p("platform"), "CNB_BUILD_PLAN_PATH": w.p("plan.toml"), "CNB_LAYERS_DIR": w.p("layers"), "CNB_BP_PLAN_PATH": w.p("bp_plan.toml")})
    if cfg["variant"]:
        env["CNB_TARGET_ARCH_VARIANT"] = "v8"
    arg0 = ARG0[cfg["arg0"]].replace("PHASE", phase).replace("BPDIR", w.p("bp"))
    if cfg["arg0"] == 2:
        os.makedirs(w.p("bp", "bin"), exist_ok=True)
        if not os.path.lexists(arg0):
            os.symlink(vbcommon_VB(), arg0)
    full = [w.p("platform"), w.p("plan.toml")] if phase == "detect" else [w.p("layers"), w.p("platform"), w.p("bp_plan.toml")]
    # the build plan path in other spellings: a bare file name and ./name (relative to the working
    # directory = app dir), and a path whose directory does not exist
    pp = cfg.get("planpath", 0)
    plan_real = w.p("plan.toml")
    if phase == "detect" and pp:
        if pp in (1, 2):
            full[1] = "plan.toml" if pp == 1 else "./plan.toml"
            plan_real = w.p("app", "plan.toml")
            if cfg["stale"]:
                open(plan_real, "wb").write(STALE["plan.toml"])
        elif pp == 3:
            full[1] = w.p("nodir", "plan.toml")
            plan_real = full[1]
        else:
            # arguments that are not valid UTF-8 (legal path names): pp 4 = the plan path, pp 5 = the platform directory
            os.makedirs(w.p("out"), exist_ok=True)
            if pp == 4:
                full = [w.p("platform").encode(), w.p("out").encode() + b"/pl\xffan.toml"]
            else:
                os.makedirs(w.p("plat").encode() + b"\xffform/env")
                open(w.p("plat").encode() + b"\xffform/env/VAR", "w").write("from-the-named-platform-dir")
                full = [w.p("plat").encode() + b"\xffform", w.p("out", "plan.toml").encode()]
            plan_real = full[1]
    if phase == "build" and pp == 6:
        full[2] = w.p("no-such-plan.toml")
    path_of = lambda rel: plan_real if rel == "plan.toml" else w.p(rel)
    args = (full + ["extra1", "extra2"])[: cfg["argc"]]
    script = {}
    if phase == "detect":
        beh = DETECT_BEH[cfg["beh"]]
        script["detect"] = {"kind": beh, "plan": PLAN_CALLS}
    else:
        kind, launch, store, bs, ls = BUILD_BEH[cfg["beh"]]
        spec = {"kind": "error" if kind == "error" else "pass", "ops": []}
        if kind == "layer_error":
            open(w.p("layers", "broken.toml"), "w").write("[types\n")
            os.makedirs(w.p("layers", "broken"), exist_ok=True)
            spec["ops"] = [{"op": "cached", "name": "broken", "build": True}]
        if launch:
            spec["launch"] = LAUNCH_FIRST
            spec["launch2"] = LAUNCH
        if store == "empty":
            spec["store"] = {}
        elif store:
            spec["store"] = STORE
        spec["build_sboms"] = BUILD_SBOMS[bs]
        spec["launch_sboms"] = LAUNCH_SBOMS[ls]
        script["build"] = spec
    before = {rel: read_bytes(path_of(rel)) for rel in OUTPUTS}
    # under a wrong name the program file itself is called like the phase (as packaged: bin/build is
    # the real file, other names are links to it): only the name it was invoked by counts
    exe = real_exe(phase) if cfg["arg0"] in (1, 3) else None
    r = w.run(phase, script, arg0=arg0, args=args, env=env, bpdir=cfg["bpdir"], exe=exe)
    code = r.returncode
    after = {rel: read_bytes(path_of(rel)) for rel in OUTPUTS}
    marks = w.markers()
    if phase == "detect" and pp in (4, 5):
        # either handled exactly (phase ran once, plan at exactly the named path) or refused with an
        # error and nothing written; never a different file, never a silently different directory
        v = []
        listing = sorted(os.listdir(w.p("out").encode()))
        want_name = os.path.basename(plan_real)
        beh = DETECT_BEH[cfg["beh"]]
        ran = marks.count("detect")
        what = f"non-UTF-8 {'plan path' if pp == 4 else 'platform directory'} argument, behaviour {beh}: exit {code}, detect ran {ran}x, out/ holds {listing}"
        if ran == 0:
            if code in (0, 100) or listing:
                v.append(("unrepresentable-argument-not-reported", what + f" [config {json.dumps(cfg, sort_keys=True)}]"))
        else:
            ok_codes = {"pass": (0,), "pass_plan": (0,), "fail": (100,)}.get(beh)
            want_listing = [want_name] if beh == "pass_plan" else []
            seen_env = True
            if pp == 5:
                try:
                    seen_env = any(bytes.fromhex(k) == b"VAR" for k, _ in json.load(open(w.dump))["context"]["platform_env"])
                except (OSError, ValueError, KeyError):
                    seen_env = False
            if not seen_env:
                v.append(("argument-bytes-altered", what + f": the platform directory that was named holds env/VAR, the context does not [config {json.dumps(cfg, sort_keys=True)}]"))
            elif (ok_codes and code not in ok_codes) or (beh == "error" and code in (0, 100)) or listing != want_listing:
                v.append(("argument-bytes-altered", what + f", expected out/ to hold {want_listing} [config {json.dumps(cfg, sort_keys=True)}]"))
        return v, f"detect-nonutf8:{code}:{ran}:{len(listing)}"
    n_phase = marks.count("detect") + marks.count("build")
    n_err = marks.count("on_error")
    changed = [rel for rel in OUTPUTS if before[rel] != after[rel]]
    v = []
    outcome = f"{phase}:{code}:{n_phase}:{n_err}:{len(changed)}"

    def bad(sig, what):
        v.append((sig, f"{what} [config {json.dumps(cfg, sort_keys=True)}; exit {code}; markers {marks}; stderr {r.stderr[-200:]!r}]"))

    if not reaches(cfg):
        if n_phase:
            bad("invalid-config-reaches-phase", f"{phase} code ran although the invocation is invalid")
        if code == 0:
            bad("invalid-config-exits-0", "an invalid invocation exited 0")
        elif phase == "detect" and cfg["arg0"] in (0, 2) and code == 100:
            bad("invalid-config-exits-100", "an invalid detect invocation exited 100 (= detection failed)")
        if changed:
            bad("invalid-config-writes-output", f"an invalid invocation changed {changed}")
        if n_err > 1:
            bad("on-error-twice", "error handler called more than once")
        return v, outcome
    if code < 0:
        bad("crash", "process died from a signal")
        return v, outcome
    if phase == "detect":
        beh = DETECT_BEH[cfg["beh"]]
        if marks.count("detect") != 1:
            bad("detect-not-once", "detect was not called exactly once")
        if beh == "pass_plan" and pp == 3:
            # the plan cannot be written (its directory does not exist): a reported error
            if code in (0, 100):
                bad("unwritable-plan-not-reported", "the build plan could not be written but the exit status is 0 or 100")
            if n_err != 1:
                bad("on-error-not-once", f"error handler called {n_err} times")
        elif beh in ("pass", "pass_plan"):
            if code != 0:
                bad("detect-pass-exit", "detection passed but exit status is not 0")
            if n_err:
                bad("on-error-without-error", "error handler called although detection passed")
            if beh == "pass":
                if changed:
                    bad("plan-written-without-plan", f"detection passed without a plan but {changed} changed")
            else:
                if [c for c in changed if c != "plan.toml"]:
                    bad("detect-writes-foreign-file", f"detect changed {changed}")
                try:
                    doc = tomllib.loads((after["plan.toml"] or b"").decode())
                except Exception as e:  # noqa
                    doc = None
                    bad("plan-not-toml", f"build plan is not valid TOML: {e}")
                if doc is not None:
                    want = {"provides": [{"name": "a"}], "requires": [{"name": "b"}], "or": [{"provides": [{"name": "c"}]}]}
                    if norm_plan(doc) != norm_plan(want) or set(doc) - {"provides", "requires", "or"}:
                        bad("plan-content", f"build plan on disk {doc} differs from the returned plan {want}")
        elif beh == "fail":
            if code != 100:
                bad("detect-fail-exit", "detection failed but exit status is not 100")
            if changed:
                bad("plan-written-on-fail", f"detection failed but {changed} changed")
            if n_err:
                bad("on-error-without-error", "error handler called although detect returned a result")
        else:
            if code in (0, 100):
                bad("detect-error-exit", "detect returned an error but the exit status is 0 or 100")
            if n_err != 1:
                bad("on-error-not-once", f"error handler called {n_err} times")
            if changed:
                bad("plan-written-on-error", f"detect failed with an error but {changed} changed")
        return v, outcome
    kind, launch, store, bs, ls = BUILD_BEH[cfg["beh"]]
    if marks.count("build") != 1:
        bad("build-not-once", "build was not called exactly once")
    if kind != "pass":
        if code == 0:
            bad("build-error-exit-0", "build returned an error but exit status is 0")
        if n_err != 1:
            bad("on-error-not-once", f"error handler called {n_err} times")
        return v, outcome
    if code != 0:
        bad("build-pass-exit", "build succeeded but exit status is not 0")
    if n_err:
        bad("on-error-without-error", "error handler called although build succeeded")
    expect = dict(before)
    if launch:
        expect["layers/launch.toml"] = "LAUNCH"
    if store == "empty":
        expect["layers/store.toml"] = "STORE-EMPTY"
    elif store:
        expect["layers/store.toml"] = "STORE"
    for f, d in BUILD_SBOMS[bs]:
        expect[f"layers/build.sbom.{SBOM_EXT[f]}"] = d.encode()
    for f, d in LAUNCH_SBOMS[ls]:
        expect[f"layers/launch.sbom.{SBOM_EXT[f]}"] = d.encode()
    for rel in OUTPUTS:
        if rel == "plan.toml":
            continue
        want = expect[rel]
        got = after[rel]
        if want in ("LAUNCH", "STORE", "STORE-EMPTY"):
            try:
                doc = tomllib.loads((got or b"").decode())
            except Exception as e:  # noqa
                bad("output-not-toml", f"{rel} is not valid TOML: {e}")
                continue
            if want == "LAUNCH":
                procs = doc.get("processes", [])
                ok = (len(procs) == 2 and procs[0].get("type") == "web" and procs[0].get("command") == ["run"] and procs[0].get("args", []) == ["a b"]
                      and procs[0].get("default", False) is True and procs[1].get("type") == "console" and procs[1].get("command") == ["sh"] and procs[1].get("default", False) is True and doc.get("labels") == [{"key": "k", "value": "v"}] and doc.get("slices") == [{"paths": ["static/**"]}])
                if not ok or set(doc) - {"processes", "labels", "slices"}:
                    bad("launch-content", f"launch.toml {doc} differs from the returned launch configuration")
            elif want == "STORE-EMPTY":
                if doc.get("metadata", {}) != {} or set(doc) - {"metadata"}:
                    bad("store-content", f"store.toml {doc}: the result provided an EMPTY store")
            else:
                if doc.get("metadata") != STORE or set(doc) != {"metadata"}:
                    bad("store-content", f"store.toml {doc} differs from the returned store {STORE}")
        elif got != want:
            provided = rel in [f"layers/build.sbom.{SBOM_EXT[f]}" for f, _ in BUILD_SBOMS[bs]] + [f"layers/launch.sbom.{SBOM_EXT[f]}" for f, _ in LAUNCH_SBOMS[ls]]
            if provided:
                bad("sbom-content", f"{rel} holds {got!r}, the result provided {want!r}")
            else:
                bad("output-written-without-being-provided", f"{rel} changed from {want!r} to {got!r} although the build result did not provide it")
    return v, outcome


def norm_plan(d):
    def grp(g):
        return ([p.get("name") for p in g.get("provides", [])], [r.get("name") for r in g.get("requires", [])])
    return (grp(d), [grp(o) for o in d.get("or", [])])


def run(ctx):
    ensure_vb()
    res = Result(ctx, "exploration")
    if ctx.replay:
        doc = json.load(open(ctx.replay))
        cfg = doc["replay"]["config"]
        v, o = run_cfg((0, cfg, ctx.scratch))
        print(f"config {cfg} -> {o}")
        for sig, what in v:
            print("DIFFERENCE:", what)
            res.violation(sig, what, {"config": cfg})
        return res.done()
    import itertools
    symbols = [(wi, var, ph) for wi in range(2) for var in (1, 2, 3) for ph in ("detect", "build")]
    seqs = [{"kind": "sequence", "symbols": [list(x) for x in seq]} for n in ((2, 3) if ctx.thorough else (2,)) for seq in itertools.product(symbols, repeat=n)]
    cfgs = list(all_cfgs(ctx.thorough)) + list(planpath_cfgs()) + list(missing_plan_cfgs()) + list(pathvar_cfgs()) + seqs
    # ownership of nondeterminism: the first configurations run twice must give identical outcomes
    probe = [run_cfg((i, c, ctx.scratch)) for i, c in enumerate(cfgs[:5])]
    probe2 = [run_cfg((i, c, ctx.scratch)) for i, c in enumerate(cfgs[:5])]
    if probe != probe2:
        raise Machinery("C05: the same configuration gave two different observations")
    outcomes = set()
    nontrivial = set()
    with ProcessPoolExecutor(max_workers=16) as ex:
        for (v, o), cfg in zip(ex.map(run_cfg, [(i, c, ctx.scratch) for i, c in enumerate(cfgs)], chunksize=64), cfgs):
            outcomes.add(o)
            if cfg.get("kind") == "sequence" or reaches(cfg) or deviations(cfg) == 1:
                nontrivial.add(json.dumps(cfg, sort_keys=True))
            for sig, what in v:
                res.violation(sig, what, {"config": cfg})
    res.cov("evaluations", len(cfgs))
    res.cov("distinct_nontrivial", len(nontrivial))
    res.cov("distinct_outcomes", sorted(outcomes))
    res.cov("determinism_replays", 5)
    res.cov("rule", "configurations = executable name (phase, other, <buildpack dir>/bin/phase, phase.bak; under the two wrong names the program FILE is called like the phase) x argument count 0..4 x buildpack.toml (valid, valid with a declared sbom-formats list, api 0.9/0.11/1/missing, malformed, not UTF-8 inside a comment, file missing, unknown key) x CNB_BUILDPACK_DIR x each mandatory CNB_TARGET_* variable x ARCH_VARIANT x behaviour (4 detect; 16 pass results, the launch configuration set twice on the builder, x SBOM sets + error + layer error for build) x stale outputs; plus, for valid detect invocations, the plan path as a bare file name, ./name, a path in a missing directory and non-UTF-8 plan / platform paths x 4 behaviours; every argument count with the lifecycle's CNB_*_DIR/PATH variables exported; each run as a real process; plus every in-process sequence of 2 (thorough 3) programmatic detect/build calls over 12 symbols, exit status and written files of each step compared with the same call alone in a fresh process; non-trivial = configurations that reach the phase or deviate from a valid invocation in exactly one dimension")
    res.cov("bound", {"deviations_from_valid_invocation": "<=3 all behaviours" if not ctx.thorough else "full product for detect and for build up to 3 deviations; beyond that build behaviours {first,last}"})
    res.cov("exhaustive", True)
    res.sample(cfgs[0])
    res.sample(cfgs[len(cfgs) // 2])
    res.sample(cfgs[-1])
    res.assume("whether on_error runs for usage/API errors is not judged; outputs after a build error are not judged")
    return res.done()
