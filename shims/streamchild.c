/* Scripted child for C19(b): shrinks its stdout/stderr pipes to one page, then executes one
 * script op per token byte read from the control FIFO and acknowledges each completed op on the
 * ack FIFO. usage: streamchild <ctrl-fifo> <ack-fifo> <script>   script ops, comma separated:
 *   o<n> / e<n>  write n bytes to stdout / stderr (n <= 4096: atomic, blocks until it fits)
 *   O / E        close stdout / stderr
 * After the last op the process exits (closing whatever is still open).
 * Byte i (0-based, per stream) of stdout is (i % 251), of stderr is 255 - (i % 241). */
#define _GNU_SOURCE
#include <fcntl.h>
#include <stdio.h>
#include <stdlib.h>
#include <string.h>
#include <unistd.h>

int main(int argc, char **argv) {
    if (argc < 4) return 2;
    if (fcntl(1, F_SETPIPE_SZ, 4096) < 0 || fcntl(2, F_SETPIPE_SZ, 4096) < 0) return 3;
    int ctrl = open(argv[1], O_RDONLY);
    int ack = open(argv[2], O_WRONLY);
    if (ctrl < 0 || ack < 0) return 4;
    long idx[2] = {0, 0};
    char *save = 0;
    char *script = strdup(argv[3]);
    static unsigned char buf[4096];
    for (char *op = strtok_r(script, ",", &save); op; op = strtok_r(0, ",", &save)) {
        char tok;
        if (read(ctrl, &tok, 1) != 1) return 5;
        if (op[0] == 'o' || op[0] == 'e') {
            int s = op[0] == 'e';
            int n = atoi(op + 1);
            for (int i = 0; i < n; i++, idx[s]++) buf[i] = s ? (unsigned char)(255 - (idx[s] % 241)) : (unsigned char)(idx[s] % 251);
            int off = 0;
            while (off < n) {
                ssize_t w = write(s ? 2 : 1, buf + off, n - off);
                if (w < 0) return 6;
                off += (int)w;
            }
        } else if (op[0] == 'O') {
            close(1);
        } else if (op[0] == 'E') {
            close(2);
        }
        char a = 'k';
        if (write(ack, &a, 1) != 1) return 7;
    }
    return 0;
}
