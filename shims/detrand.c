/* Deterministic getrandom(2)/getentropy(3) for harness runs: Rust std seeds HashMap's RandomState
 * from getrandom, so VERIF_HASH_SEED fully determines hash iteration order (C12 needs reproducible
 * syscall histories, C20 enumerates iteration orders). Only loaded via LD_PRELOAD by the harness. */
#define _GNU_SOURCE
#include <stdint.h>
#include <stdlib.h>
#include <string.h>
#include <sys/types.h>

static void fill(unsigned char *b, size_t len) {
    const char *s = getenv("VERIF_HASH_SEED");
    uint64_t x = s ? strtoull(s, 0, 10) : 0;
    x = x * 0x9E3779B97F4A7C15ULL + 0xD1B54A32D192ED03ULL;
    for (size_t i = 0; i < len; i++) {
        x ^= x >> 12; x ^= x << 25; x ^= x >> 27;
        b[i] = (unsigned char)((x * 0x2545F4914F6CDD1DULL) >> 56);
    }
}
ssize_t getrandom(void *buf, size_t len, unsigned int flags) { (void)flags; fill(buf, len); return (ssize_t)len; }
int getentropy(void *buf, size_t len) { fill(buf, len); return 0; }
