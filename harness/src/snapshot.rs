//! Canonical directory snapshots: sorted map relative path -> (kind, mode, bytes | link target).
//! No times, no inode numbers. Equality of snapshots is state identity everywhere.
use serde::{Deserialize, Serialize};
use std::collections::BTreeMap;
use std::ffi::OsStr;
use std::fs;
use std::io;
use std::os::unix::ffi::{OsStrExt, OsStringExt};
use std::os::unix::fs::{MetadataExt, PermissionsExt};
use std::path::{Path, PathBuf};

#[derive(Clone, PartialEq, Eq, Hash, PartialOrd, Ord, Debug, Serialize, Deserialize)]
pub enum Node {
    Dir { mode: u32 },
    File { mode: u32, data: Vec<u8> },
    Link { target: Vec<u8> },
    /// something else (fifo, socket, ...) or unreadable
    Other { what: String },
}

impl Node {
    pub fn file(data: &[u8]) -> Node {
        Node::File {
            mode: 0o644,
            data: data.to_vec(),
        }
    }
    pub fn dir() -> Node {
        Node::Dir { mode: 0o755 }
    }
    pub fn is_dir(&self) -> bool {
        matches!(self, Node::Dir { .. })
    }
}

/// key: relative path as raw bytes (components joined by '/'), no leading slash.
#[derive(Clone, PartialEq, Eq, Hash, PartialOrd, Ord, Debug, Default, Serialize, Deserialize)]
#[serde(into = "Vec<(Vec<u8>, Node)>", from = "Vec<(Vec<u8>, Node)>")]
pub struct Snapshot(pub BTreeMap<Vec<u8>, Node>);

impl From<Snapshot> for Vec<(Vec<u8>, Node)> {
    fn from(s: Snapshot) -> Self {
        s.0.into_iter().collect()
    }
}
impl From<Vec<(Vec<u8>, Node)>> for Snapshot {
    fn from(v: Vec<(Vec<u8>, Node)>) -> Self {
        Snapshot(v.into_iter().collect())
    }
}

fn join_key(prefix: &[u8], name: &[u8]) -> Vec<u8> {
    if prefix.is_empty() {
        name.to_vec()
    } else {
        let mut v = prefix.to_vec();
        v.push(b'/');
        v.extend_from_slice(name);
        v
    }
}

impl Snapshot {
    pub fn new() -> Self {
        Snapshot(BTreeMap::new())
    }

    /// Snapshot of everything below `root` (root itself not included). Never follows symlinks.
    pub fn take(root: &Path) -> io::Result<Snapshot> {
        let mut s = Snapshot::new();
        s.walk(root, b"")?;
        Ok(s)
    }

    fn walk(&mut self, dir: &Path, prefix: &[u8]) -> io::Result<()> {
        let rd = match fs::read_dir(dir) {
            Ok(rd) => rd,
            Err(e) => {
                self.0.insert(
                    join_key(prefix, b"<unreadable>"),
                    Node::Other {
                        what: format!("read_dir: {:?}", e.kind()),
                    },
                );
                return Ok(());
            }
        };
        let mut names: Vec<_> = rd.collect::<Result<Vec<_>, _>>()?;
        names.sort_by_key(|e| e.file_name());
        for e in names {
            let name = e.file_name();
            let key = join_key(prefix, name.as_bytes());
            let p = e.path();
            let md = fs::symlink_metadata(&p)?;
            let ft = md.file_type();
            if ft.is_symlink() {
                let t = fs::read_link(&p)?;
                self.0.insert(
                    key,
                    Node::Link {
                        target: t.into_os_string().into_vec(),
                    },
                );
            } else if ft.is_dir() {
                self.0.insert(
                    key.clone(),
                    Node::Dir {
                        mode: md.mode() & 0o7777,
                    },
                );
                self.walk(&p, &key)?;
            } else if ft.is_file() {
                let data = match fs::read(&p) {
                    Ok(d) => d,
                    Err(e) => format!("<unreadable {:?}>", e.kind()).into_bytes(),
                };
                self.0.insert(
                    key,
                    Node::File {
                        mode: md.mode() & 0o7777,
                        data,
                    },
                );
            } else {
                self.0.insert(
                    key,
                    Node::Other {
                        what: {
                            use std::os::unix::fs::FileTypeExt;
                            if ft.is_fifo() {
                                "fifo".to_string()
                            } else if ft.is_socket() {
                                "socket".to_string()
                            } else {
                                format!("{:?}", ft)
                            }
                        },
                    },
                );
            }
        }
        Ok(())
    }

    /// Recreate the snapshot below `root` (which must exist and be empty).
    pub fn materialise(&self, root: &Path) -> io::Result<()> {
        let mut dir_modes: Vec<(PathBuf, u32)> = Vec::new();
        let mut hard_links: Vec<(PathBuf, PathBuf)> = Vec::new();
        for (k, n) in &self.0 {
            let p = root.join(OsStr::from_bytes(k));
            match n {
                // a second name for the regular file at the given key (created once everything else exists)
                Node::Other { what } if what.starts_with("hardlink:") => {
                    hard_links.push((root.join(&what["hardlink:".len()..]), p));
                }
                Node::Dir { mode } => {
                    fs::create_dir(&p)?;
                    dir_modes.push((p, *mode));
                }
                Node::File { mode, data } => {
                    fs::write(&p, data)?;
                    fs::set_permissions(&p, fs::Permissions::from_mode(*mode))?;
                }
                Node::Link { target } => {
                    std::os::unix::fs::symlink(OsStr::from_bytes(target), &p)?;
                }
                Node::Other { what } if what == "fifo" => {
                    let c = std::ffi::CString::new(p.as_os_str().as_bytes()).unwrap();
                    if unsafe { libc::mkfifo(c.as_ptr(), 0o644) } != 0 {
                        return Err(io::Error::last_os_error());
                    }
                }
                Node::Other { what } if what == "socket" => {
                    // binding creates the socket file; it stays after the listener is dropped
                    drop(std::os::unix::net::UnixListener::bind(&p)?);
                }
                Node::Other { what } => {
                    return Err(io::Error::other(format!("cannot materialise {what}")));
                }
            }
        }
        for (target, p) in hard_links {
            fs::hard_link(&target, &p)?;
        }
        // deepest first so that restrictive parents do not block children
        for (p, mode) in dir_modes.into_iter().rev() {
            fs::set_permissions(&p, fs::Permissions::from_mode(mode))?;
        }
        Ok(())
    }

    pub fn get(&self, key: &str) -> Option<&Node> {
        self.0.get(key.as_bytes())
    }

    pub fn insert(&mut self, key: &str, n: Node) {
        self.0.insert(key.as_bytes().to_vec(), n);
    }

    /// Sub-snapshot of all entries equal to `prefix` or below `prefix/`; keys made relative
    /// (the entry itself gets key "").
    pub fn sub(&self, prefix: &str) -> Snapshot {
        let pb = prefix.as_bytes();
        let mut out = Snapshot::new();
        for (k, n) in &self.0 {
            if k.as_slice() == pb {
                out.0.insert(Vec::new(), n.clone());
            } else if k.len() > pb.len() && k.starts_with(pb) && k[pb.len()] == b'/' {
                out.0.insert(k[pb.len() + 1..].to_vec(), n.clone());
            }
        }
        out
    }

    /// All entries whose first path component (or whole key) satisfies `pred`.
    pub fn filter_top(&self, pred: impl Fn(&[u8]) -> bool) -> Snapshot {
        let mut out = Snapshot::new();
        for (k, n) in &self.0 {
            let top = k.split(|b| *b == b'/').next().unwrap_or(&[]);
            if pred(top) {
                out.0.insert(k.clone(), n.clone());
            }
        }
        out
    }

    /// direct children names of a directory key ("" = root)
    pub fn children(&self, dir: &[u8]) -> Vec<Vec<u8>> {
        let mut out = Vec::new();
        for k in self.0.keys() {
            let rest = if dir.is_empty() {
                Some(k.as_slice())
            } else if k.len() > dir.len() && k.starts_with(dir) && k[dir.len()] == b'/' {
                Some(&k[dir.len() + 1..])
            } else {
                None
            };
            if let Some(r) = rest {
                if !r.contains(&b'/') {
                    out.push(r.to_vec());
                }
            }
        }
        out
    }

    pub fn to_json(&self) -> serde_json::Value {
        let mut m = serde_json::Map::new();
        for (k, n) in &self.0 {
            let ks = lossy(k);
            let v = match n {
                Node::Dir { mode } => serde_json::json!({"dir": format!("{:o}", mode)}),
                Node::File { mode, data } => {
                    serde_json::json!({"file": lossy(data), "mode": format!("{:o}", mode)})
                }
                Node::Link { target } => serde_json::json!({"link": lossy(target)}),
                Node::Other { what } => serde_json::json!({"other": what}),
            };
            m.insert(ks, v);
        }
        serde_json::Value::Object(m)
    }

    /// Human readable difference (at most `max` lines).
    pub fn diff(&self, other: &Snapshot, max: usize) -> Vec<String> {
        let mut out = Vec::new();
        for (k, n) in &self.0 {
            match other.0.get(k) {
                None => out.push(format!("- {} {}", lossy(k), short(n))),
                Some(m) if m != n => {
                    out.push(format!("~ {} {} => {}", lossy(k), short(n), short(m)))
                }
                _ => {}
            }
        }
        for (k, n) in &other.0 {
            if !self.0.contains_key(k) {
                out.push(format!("+ {} {}", lossy(k), short(n)));
            }
        }
        out.truncate(max);
        out
    }
}

pub fn short(n: &Node) -> String {
    match n {
        Node::Dir { mode } => format!("dir({:o})", mode),
        Node::File { mode, data } => {
            let mut d = lossy(data);
            if d.len() > 60 {
                d.truncate(60);
                d.push('…');
            }
            format!("file({:o},{:?})", mode, d)
        }
        Node::Link { target } => format!("link({:?})", lossy(target)),
        Node::Other { what } => format!("other({what})"),
    }
}

/// printable rendering of bytes: UTF-8 if valid and printable, else \xNN escapes
pub fn lossy(b: &[u8]) -> String {
    match std::str::from_utf8(b) {
        Ok(s) if !s.chars().any(|c| c.is_control() && c != '\n') => s.to_string(),
        _ => b
            .iter()
            .map(|c| {
                if c.is_ascii_graphic() || *c == b' ' {
                    (*c as char).to_string()
                } else {
                    format!("\\x{:02x}", c)
                }
            })
            .collect(),
    }
}

/// A private scratch directory on tmpfs, removed on drop (permissions fixed first).
pub struct Scratch {
    pub path: PathBuf,
}

static COUNTER: std::sync::atomic::AtomicU64 = std::sync::atomic::AtomicU64::new(0);

pub fn scratch_root() -> PathBuf {
    let base = std::env::var_os("VERIF_SCRATCH")
        .map(PathBuf::from)
        .unwrap_or_else(|| PathBuf::from("/dev/shm"));
    base.join(format!("verif-{}", std::process::id()))
}

impl Scratch {
    pub fn new(tag: &str) -> Scratch {
        let n = COUNTER.fetch_add(1, std::sync::atomic::Ordering::Relaxed);
        let path = scratch_root().join(format!("{tag}-{n}"));
        fs::create_dir_all(&path).expect("scratch dir");
        Scratch { path }
    }
}

pub fn force_remove(path: &Path) {
    fn fix(p: &Path) {
        if let Ok(md) = fs::symlink_metadata(p) {
            if md.is_dir() {
                let _ = fs::set_permissions(p, fs::Permissions::from_mode(0o755));
                if let Ok(rd) = fs::read_dir(p) {
                    for e in rd.flatten() {
                        fix(&e.path());
                    }
                }
            }
        }
    }
    if fs::remove_dir_all(path).is_err() {
        fix(path);
        let _ = fs::remove_dir_all(path);
    }
}

impl Drop for Scratch {
    fn drop(&mut self) {
        force_remove(&self.path);
    }
}

pub fn cleanup_scratch_root() {
    force_remove(&scratch_root());
}
