pub mod engine;
pub mod envref;
pub mod layermodel;
pub mod report;
pub mod snapshot;
pub mod vbscript;
