pub mod engine;
pub mod report;
pub mod snapshot;
