pub mod engine;
pub mod envref;
pub mod report;
pub mod snapshot;
