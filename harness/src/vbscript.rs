//! The "verification buildpack": a JSON-scripted implementation of `libcnb::Buildpack`, used by
//! the `vb` executable (real `buildpack_main!` runtime; C05 C06 C07 C20) and by `oprunner` (one
//! layer operation on a prepared directory under strace; C12).
#![allow(deprecated)]
use crate::layermodel::{VB, VErr};
use libcnb::build::{BuildContext, BuildResult, BuildResultBuilder};
use libcnb::data::build_plan::{BuildPlanBuilder, Require};
use libcnb::data::launch::{LaunchBuilder, ProcessBuilder, WorkingDirectory};
use libcnb::data::layer::LayerName;
use libcnb::data::layer_content_metadata::LayerTypes;
use libcnb::data::sbom::SbomFormat;
use libcnb::detect::{DetectContext, DetectResult, DetectResultBuilder};
use libcnb::generic::GenericMetadata;
use libcnb::layer::{CachedLayerDefinition, ExistingLayerStrategy, InvalidMetadataAction, Layer, LayerData, LayerRef, LayerResult, LayerResultBuilder, MetadataMigration, RestoredLayerAction, UncachedLayerDefinition};
use libcnb::layer_env::{LayerEnv, ModificationBehavior, Scope};
use libcnb::sbom::Sbom;
use libcnb::{Env, Platform};
use serde::{Deserialize, Serialize};
use serde_json::{Value, json};
use std::collections::BTreeMap;
use std::io::Write;
use std::os::unix::ffi::OsStrExt;
use std::path::{Path, PathBuf};

#[derive(Deserialize, Default, Debug)]
pub struct Script {
    #[serde(default)]
    pub log: Option<String>,
    #[serde(default)]
    pub dump: Option<String>,
    #[serde(default)]
    pub detect: Option<DetectSpec>,
    #[serde(default)]
    pub build: Option<BuildSpec>,
}

#[derive(Deserialize, Debug)]
pub struct DetectSpec {
    /// pass | pass_plan | fail | error
    pub kind: String,
    /// builder call sequence: ["provides", name] | ["requires", name] | ["requires_meta", name, {..}] | ["or"]
    #[serde(default)]
    pub plan: Vec<Vec<Value>>,
}

#[derive(Deserialize, Debug, Default)]
pub struct BuildSpec {
    /// pass | error
    #[serde(default)]
    pub kind: String,
    #[serde(default)]
    pub ops: Vec<Value>,
    #[serde(default)]
    pub launch: Option<LaunchSpec>,
    /// a second `BuildResultBuilder::launch` call on the same builder (after `launch`)
    #[serde(default)]
    pub launch2: Option<LaunchSpec>,
    #[serde(default)]
    pub store: Option<Value>,
    #[serde(default)]
    pub build_sboms: Vec<(String, String)>,
    #[serde(default)]
    pub launch_sboms: Vec<(String, String)>,
}

#[derive(Deserialize, Serialize, Debug, Default, Clone)]
pub struct LaunchSpec {
    #[serde(default)]
    pub processes: Vec<ProcSpec>,
    #[serde(default)]
    pub labels: Vec<(String, String)>,
    #[serde(default)]
    pub slices: Vec<Vec<String>>,
}
#[derive(Deserialize, Serialize, Debug, Clone)]
pub struct ProcSpec {
    pub r#type: String,
    pub command: Vec<String>,
    #[serde(default)]
    pub args: Vec<String>,
    #[serde(default)]
    pub default: Option<bool>,
    /// None = not called; Some(None) = App; Some(Some(dir)) = Directory(dir)
    #[serde(default)]
    pub working_directory: Option<Option<String>>,
}

pub fn load_script() -> Script {
    match std::env::var_os("VB_SCRIPT") {
        Some(p) => serde_json::from_str(&std::fs::read_to_string(p).expect("VB_SCRIPT readable")).expect("VB_SCRIPT json"),
        None => Script::default(),
    }
}

fn log(script: &Script, line: &str) {
    if let Some(p) = &script.log {
        let mut f = std::fs::OpenOptions::new().create(true).append(true).open(p).expect("marker log");
        writeln!(f, "{line}").unwrap();
    }
}

pub fn json_to_toml(v: &Value) -> toml::Value {
    match v {
        Value::Null => toml::Value::String("<null>".into()),
        Value::Bool(b) => toml::Value::Boolean(*b),
        Value::Number(n) => {
            if let Some(i) = n.as_i64() {
                toml::Value::Integer(i)
            } else {
                toml::Value::Float(n.as_f64().unwrap_or(0.0))
            }
        }
        Value::String(s) => toml::Value::String(s.clone()),
        Value::Array(a) => toml::Value::Array(a.iter().map(json_to_toml).collect()),
        Value::Object(o) => toml::Value::Table(o.iter().map(|(k, v)| (k.clone(), json_to_toml(v))).collect()),
    }
}

pub fn toml_to_json(v: &toml::Value) -> Value {
    match v {
        toml::Value::String(s) => json!({"s": s}),
        toml::Value::Integer(i) => json!({"i": i.to_string()}),
        toml::Value::Float(f) => json!({"f": format!("{f:?}")}),
        toml::Value::Boolean(b) => json!({"b": b}),
        toml::Value::Datetime(d) => json!({"d": d.to_string()}),
        toml::Value::Array(a) => json!({"a": a.iter().map(toml_to_json).collect::<Vec<_>>()}),
        toml::Value::Table(t) => json!({"t": t.iter().map(|(k, v)| (k.clone(), toml_to_json(v))).collect::<BTreeMap<_, _>>()}),
    }
}

pub fn build_launch(spec: &LaunchSpec) -> Result<libcnb::data::launch::Launch, String> {
    let mut lb = LaunchBuilder::new();
    for p in &spec.processes {
        let mut pb = ProcessBuilder::new(p.r#type.parse().map_err(|e| format!("process type: {e:?}"))?, p.command.clone());
        for a in &p.args {
            pb.arg(a);
        }
        if let Some(d) = p.default {
            pb.default(d);
        }
        match &p.working_directory {
            None => {}
            Some(None) => {
                pb.working_directory(WorkingDirectory::App);
            }
            Some(Some(d)) => {
                pb.working_directory(WorkingDirectory::Directory(PathBuf::from(d)));
            }
        }
        lb.process(pb.build());
    }
    for (k, v) in &spec.labels {
        lb.label(libcnb::data::launch::Label { key: k.clone(), value: v.clone() });
    }
    for s in &spec.slices {
        lb.slice(libcnb::data::launch::Slice { path_globs: s.clone() });
    }
    Ok(lb.build())
}

pub fn build_plan(calls: &[Vec<Value>]) -> libcnb::data::build_plan::BuildPlan {
    let mut b = BuildPlanBuilder::new();
    for c in calls {
        let kind = c[0].as_str().unwrap_or("");
        match kind {
            "provides" => b = b.provides(c[1].as_str().unwrap()),
            "requires" => b = b.requires(c[1].as_str().unwrap()),
            "requires_meta" => {
                let mut r = Require::new(c[1].as_str().unwrap());
                r.metadata(json_to_toml(&c[2])).expect("metadata must be a table");
                b = b.requires(r);
            }
            // metadata set several times on one Require: ["requires_meta_n", name, {..}, {..}, ...]
            "requires_meta_n" => {
                let mut r = Require::new(c[1].as_str().unwrap());
                for m in &c[2..] {
                    r.metadata(json_to_toml(m)).expect("metadata must be a table");
                }
                b = b.requires(r);
            }
            "or" => b = b.or(),
            other => panic!("unknown plan call {other}"),
        }
    }
    b.build()
}

fn sbom_format(s: &str) -> SbomFormat {
    match s {
        "cdx" => SbomFormat::CycloneDxJson,
        "spdx" => SbomFormat::SpdxJson,
        _ => SbomFormat::SyftJson,
    }
}

fn scope_of(s: &str) -> Scope {
    match s {
        "all" => Scope::All,
        "build" => Scope::Build,
        "launch" => Scope::Launch,
        p => Scope::Process(p.trim_start_matches("process:").to_string()),
    }
}
fn beh_of(s: &str) -> ModificationBehavior {
    match s {
        "append" => ModificationBehavior::Append,
        "default" => ModificationBehavior::Default,
        "delim" => ModificationBehavior::Delimiter,
        "override" => ModificationBehavior::Override,
        _ => ModificationBehavior::Prepend,
    }
}
pub fn env_of(v: &Value) -> LayerEnv {
    let mut e = LayerEnv::new();
    for item in v.as_array().cloned().unwrap_or_default() {
        e.insert(scope_of(item[0].as_str().unwrap()), beh_of(item[1].as_str().unwrap()), item[2].as_str().unwrap(), item[3].as_str().unwrap());
    }
    e
}

#[derive(Serialize, Deserialize, Clone, Debug)]
struct V1Meta {
    version: String,
}

struct ScriptLayer<M> {
    spec: Value,
    src_dir: PathBuf,
    _m: std::marker::PhantomData<M>,
}

/// metadata types a scripted trait-API layer can use
pub trait ScriptMeta: serde::de::DeserializeOwned + Serialize + Clone {
    fn from_json(v: &Value) -> Self;
}
impl ScriptMeta for GenericMetadata {
    fn from_json(v: &Value) -> Self {
        json_to_toml(v).as_table().cloned()
    }
}
impl ScriptMeta for V1Meta {
    fn from_json(v: &Value) -> Self {
        V1Meta { version: v["version"].as_str().unwrap_or("0").to_string() }
    }
}

impl<M: ScriptMeta> ScriptLayer<M> {
    fn result(&self, layer_path: &Path, marker: &str) -> Result<LayerResult<M>, VErr> {
        let r = &self.spec["result"];
        if r.is_null() {
            return Err(VErr("layer-callback-error".into()));
        }
        std::fs::write(layer_path.join(marker), marker).map_err(|e| VErr(e.to_string()))?;
        let mut b = LayerResultBuilder::new(M::from_json(&r["metadata"]));
        if !r["env"].is_null() {
            b = b.env(env_of(&r["env"]));
        }
        if let Some(o) = r["execd"].as_object() {
            for (k, v) in o {
                b = b.exec_d_program(k, self.src_dir.join(v.as_str().unwrap()));
            }
        }
        for s in r["sboms"].as_array().cloned().unwrap_or_default() {
            b = b.sbom(Sbom::from_bytes(sbom_format(s[0].as_str().unwrap()), s[1].as_str().unwrap().as_bytes().to_vec()));
        }
        b.build()
    }
}
impl<M: ScriptMeta> Layer for ScriptLayer<M> {
    type Buildpack = VB;
    type Metadata = M;
    fn types(&self) -> LayerTypes {
        let t = &self.spec["types"];
        LayerTypes { launch: t[0].as_bool().unwrap_or(false), build: t[1].as_bool().unwrap_or(false), cache: t[2].as_bool().unwrap_or(false) }
    }
    fn create(&mut self, _c: &BuildContext<VB>, p: &Path) -> Result<LayerResult<M>, VErr> {
        self.result(p, "created")
    }
    fn existing_layer_strategy(&mut self, _c: &BuildContext<VB>, _d: &LayerData<M>) -> Result<ExistingLayerStrategy, VErr> {
        Ok(match self.spec["strategy"].as_str().unwrap_or("recreate") {
            "keep" => ExistingLayerStrategy::Keep,
            "update" => ExistingLayerStrategy::Update,
            _ => ExistingLayerStrategy::Recreate,
        })
    }
    fn update(&mut self, _c: &BuildContext<VB>, d: &LayerData<M>) -> Result<LayerResult<M>, VErr> {
        self.result(&d.path, "updated")
    }
    fn migrate_incompatible_metadata(&mut self, _c: &BuildContext<VB>, _m: &GenericMetadata) -> Result<MetadataMigration<M>, VErr> {
        Ok(match self.spec["migration"].as_str().unwrap_or("recreate") {
            "replace" => MetadataMigration::ReplaceMetadata(M::from_json(&self.spec["migrated"])),
            _ => MetadataMigration::RecreateLayer,
        })
    }
}

enum AnyRef {
    C(LayerRef<VB, (), ()>),
}

/// Executes the layer operations of a script against a real BuildContext. Returns Err on the
/// first failing operation (the libcnb error is passed through unchanged).
pub fn run_ops(ctx: &BuildContext<VB>, ops: &[Value], src_dir: &Path) -> libcnb::Result<(), VErr> {
    let mut refs: BTreeMap<String, AnyRef> = BTreeMap::new();
    for op in ops {
        let kind = op["op"].as_str().unwrap_or("");
        let name_s = op["name"].as_str().unwrap_or("x").to_string();
        let name: LayerName = name_s.parse().map_err(|e| libcnb::Error::BuildpackError(VErr(format!("{e:?}"))))?;
        let get = |refs: &BTreeMap<String, AnyRef>| -> libcnb::Result<(), VErr> {
            if refs.contains_key(&name_s) {
                Ok(())
            } else {
                Err(libcnb::Error::BuildpackError(VErr(format!("script error: no ref for {name_s}"))))
            }
        };
        match kind {
            "cached" => {
                let keep = op["restored"].as_str().unwrap_or("keep") == "keep";
                let replace = op["invalid"].as_str().unwrap_or("delete") == "replace";
                let build = op["build"].as_bool().unwrap_or(false);
                let launch = op["launch"].as_bool().unwrap_or(false);
                let lr = if op["meta_type"].as_str() == Some("v1") {
                    ctx.cached_layer(
                        &name,
                        CachedLayerDefinition {
                            build,
                            launch,
                            invalid_metadata_action: &|_| if replace { InvalidMetadataAction::ReplaceMetadata(V1Meta { version: "9".into() }) } else { InvalidMetadataAction::DeleteLayer },
                            restored_layer_action: &|_: &V1Meta, _| if keep { RestoredLayerAction::KeepLayer } else { RestoredLayerAction::DeleteLayer },
                        },
                    )?
                } else {
                    ctx.cached_layer(
                        &name,
                        CachedLayerDefinition {
                            build,
                            launch,
                            invalid_metadata_action: &|_| InvalidMetadataAction::DeleteLayer::<GenericMetadata>,
                            restored_layer_action: &|_: &GenericMetadata, _| if keep { RestoredLayerAction::KeepLayer } else { RestoredLayerAction::DeleteLayer },
                        },
                    )?
                };
                refs.insert(name_s.clone(), AnyRef::C(lr));
            }
            "uncached" => {
                let lr = ctx.uncached_layer(&name, UncachedLayerDefinition { build: op["build"].as_bool().unwrap_or(false), launch: op["launch"].as_bool().unwrap_or(false) })?;
                refs.insert(name_s.clone(), AnyRef::C(lr));
            }
            "write_metadata" => {
                get(&refs)?;
                let AnyRef::C(r) = &refs[&name_s];
                r.write_metadata(json_to_toml(&op["metadata"]))?;
            }
            "write_env" => {
                get(&refs)?;
                let AnyRef::C(r) = &refs[&name_s];
                r.write_env(env_of(&op["env"]))?;
            }
            "rewrite_env" => {
                // read the layer's environment and write it straight back
                get(&refs)?;
                let AnyRef::C(r) = &refs[&name_s];
                let e = r.read_env()?;
                r.write_env(e)?;
            }
            "read_env" => {
                get(&refs)?;
                let AnyRef::C(r) = &refs[&name_s];
                let _ = r.read_env()?;
            }
            "write_sboms" => {
                get(&refs)?;
                let AnyRef::C(r) = &refs[&name_s];
                let s: Vec<Sbom> = op["sboms"].as_array().cloned().unwrap_or_default().iter().map(|s| Sbom::from_bytes(sbom_format(s[0].as_str().unwrap()), s[1].as_str().unwrap().as_bytes().to_vec())).collect();
                r.write_sboms(&s)?;
            }
            "write_exec_d" => {
                get(&refs)?;
                let AnyRef::C(r) = &refs[&name_s];
                let progs: Vec<(String, PathBuf)> = op["programs"].as_object().cloned().unwrap_or_default().iter().map(|(k, v)| (k.clone(), src_dir.join(v.as_str().unwrap()))).collect();
                r.write_exec_d_programs(progs)?;
            }
            // the same program name may be registered several times, from sources below different
            // roots: [[name, src], ...]; a source "ALT:<file>" lies in the directory $VERIF_ALT_SRC
            "write_exec_d_pairs" => {
                get(&refs)?;
                let AnyRef::C(r) = &refs[&name_s];
                let alt = PathBuf::from(std::env::var_os("VERIF_ALT_SRC").unwrap_or_default());
                let progs: Vec<(String, PathBuf)> = op["programs"]
                    .as_array()
                    .cloned()
                    .unwrap_or_default()
                    .iter()
                    .map(|p| {
                        let src = p[1].as_str().unwrap();
                        (p[0].as_str().unwrap().to_string(), match src.strip_prefix("ALT:") { Some(f) => alt.join(f), None => src_dir.join(src) })
                    })
                    .collect();
                r.write_exec_d_programs(progs)?;
            }
            "put_file" => {
                get(&refs)?;
                let AnyRef::C(r) = &refs[&name_s];
                let p = r.path().join(op["rel"].as_str().unwrap_or("data"));
                if let Some(parent) = p.parent() {
                    std::fs::create_dir_all(parent).map_err(|e| libcnb::Error::BuildpackError(VErr(e.to_string())))?;
                }
                std::fs::write(p, op["data"].as_str().unwrap_or("D")).map_err(|e| libcnb::Error::BuildpackError(VErr(e.to_string())))?;
            }
            "handle" => {
                if op["meta_type"].as_str() == Some("v1") {
                    ctx.handle_layer(name, ScriptLayer::<V1Meta> { spec: op.clone(), src_dir: src_dir.to_path_buf(), _m: Default::default() })?;
                } else {
                    ctx.handle_layer(name, ScriptLayer::<GenericMetadata> { spec: op.clone(), src_dir: src_dir.to_path_buf(), _m: Default::default() })?;
                }
            }
            "env_write" => {
                // bare LayerEnv::write_to_layer_dir / read_from_layer_dir on <layers>/<name>
                env_of(&op["env"]).write_to_layer_dir(ctx.layers_dir.join(&name_s)).map_err(|e| libcnb::Error::BuildpackError(VErr(format!("io:{e}"))))?;
            }
            "env_read" => {
                LayerEnv::read_from_layer_dir(ctx.layers_dir.join(&name_s)).map_err(|e| libcnb::Error::BuildpackError(VErr(format!("io:{e}"))))?;
            }
            "fail" => return Err(libcnb::Error::BuildpackError(VErr("scripted-build-error".into()))),
            other => return Err(libcnb::Error::BuildpackError(VErr(format!("script error: unknown op {other}")))),
        }
    }
    Ok(())
}

fn env_dump(e: &Env) -> Value {
    let mut v: Vec<(String, String)> = e.iter().map(|(k, v)| (hex(k.as_bytes()), hex(v.as_bytes()))).collect();
    v.sort();
    json!(v)
}
pub fn hex(b: &[u8]) -> String {
    b.iter().map(|c| format!("{c:02x}")).collect()
}

fn target_dump(t: &libcnb::Target) -> Value {
    json!({"os": t.os, "arch": t.arch, "arch_variant": t.arch_variant, "distro_name": t.distro_name, "distro_version": t.distro_version})
}

fn descriptor_dump(d: &libcnb::data::buildpack::ComponentBuildpackDescriptor<GenericMetadata>) -> Value {
    let bp = &d.buildpack;
    let mut sf: Vec<String> = bp.sbom_formats.iter().map(|f| format!("{f:?}")).collect();
    sf.sort();
    json!({
        "api": d.api.to_string(),
        "id": bp.id.to_string(), "name": bp.name, "version": bp.version.to_string(), "homepage": bp.homepage,
        "clear_env": bp.clear_env, "description": bp.description, "keywords": bp.keywords,
        "licenses": bp.licenses.iter().map(|l| json!({"type": l.r#type, "uri": l.uri})).collect::<Vec<_>>(),
        "sbom_formats": sf,
        "stacks": d.stacks.iter().map(|s| format!("{s:?}")).collect::<Vec<_>>(),
        "targets": d.targets.iter().map(|t| json!({"os": t.os, "arch": t.arch, "variant": t.variant, "distros": t.distros.iter().map(|x| json!({"name": x.name, "version": x.version})).collect::<Vec<_>>()})).collect::<Vec<_>>(),
        "metadata": d.metadata.as_ref().map(|t| toml_to_json(&toml::Value::Table(t.clone()))),
    })
}

fn write_dump(script: &Script, phase: &str, v: Value) {
    if let Some(p) = &script.dump {
        std::fs::write(p, serde_json::to_string(&json!({"phase": phase, "context": v})).unwrap()).expect("dump");
    }
}

pub fn detect(ctx: DetectContext<VB>) -> libcnb::Result<DetectResult, VErr> {
    let script = load_script();
    log(&script, "detect");
    write_dump(&script, "detect", json!({
        "app_dir": ctx.app_dir, "buildpack_dir": ctx.buildpack_dir, "target": target_dump(&ctx.target),
        "platform_env": env_dump(ctx.platform.env()), "descriptor": descriptor_dump(&ctx.buildpack_descriptor),
    }));
    let spec = script.detect.unwrap_or(DetectSpec { kind: "pass".into(), plan: vec![] });
    match spec.kind.as_str() {
        "pass" => DetectResultBuilder::pass().build(),
        "pass_plan" => DetectResultBuilder::pass().build_plan(build_plan(&spec.plan)).build(),
        "fail" => DetectResultBuilder::fail().build(),
        _ => Err(libcnb::Error::BuildpackError(VErr("scripted-detect-error".into()))),
    }
}

pub fn build(ctx: BuildContext<VB>) -> libcnb::Result<BuildResult, VErr> {
    let script = load_script();
    log(&script, "build");
    write_dump(&script, "build", json!({
        "app_dir": ctx.app_dir, "buildpack_dir": ctx.buildpack_dir, "layers_dir": ctx.layers_dir, "target": target_dump(&ctx.target),
        "platform_env": env_dump(ctx.platform.env()), "descriptor": descriptor_dump(&ctx.buildpack_descriptor),
        "plan": ctx.buildpack_plan.entries.iter().map(|e| json!({"name": e.name, "metadata": toml_to_json(&toml::Value::Table(e.metadata.clone()))})).collect::<Vec<_>>(),
        "store": ctx.store.as_ref().map(|s| toml_to_json(&toml::Value::Table(s.metadata.clone()))),
    }));
    let spec = script.build.unwrap_or_default();
    let src = ctx.buildpack_dir.join("src");
    run_ops(&ctx, &spec.ops, &src)?;
    if spec.kind == "error" {
        return Err(libcnb::Error::BuildpackError(VErr("scripted-build-error".into())));
    }
    let mut b = BuildResultBuilder::new();
    if let Some(l) = &spec.launch {
        b = b.launch(build_launch(l).map_err(|e| libcnb::Error::BuildpackError(VErr(e)))?);
    }
    if let Some(l) = &spec.launch2 {
        b = b.launch(build_launch(l).map_err(|e| libcnb::Error::BuildpackError(VErr(e)))?);
    }
    if let Some(s) = &spec.store {
        b = b.store(libcnb::data::store::Store { metadata: json_to_toml(s).as_table().cloned().unwrap_or_default() });
    }
    for (f, d) in &spec.build_sboms {
        b = b.build_sbom(Sbom::from_bytes(sbom_format(f), d.as_bytes().to_vec()));
    }
    for (f, d) in &spec.launch_sboms {
        b = b.launch_sbom(Sbom::from_bytes(sbom_format(f), d.as_bytes().to_vec()));
    }
    b.build()
}

pub fn on_error(error: libcnb::Error<VErr>) {
    let script = load_script();
    log(&script, &format!("on_error {}", format!("{error:?}").replace('\n', " ")));
}
