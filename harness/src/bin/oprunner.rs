//! Runs the layer operations of a script on a prepared root directory, without the runtime
//! (target of strace fault injection, C12). usage: oprunner <root> <script.json>
//! exit 0: all operations returned Ok; exit 3: an operation returned Err; other: crash.
use vh::layermodel::mk_context_existing;
fn main() {
    let a: Vec<String> = std::env::args().collect();
    if a.get(1).map(|s| s.as_str()) == Some("--hashorder") {
        // iteration order of a std HashMap<String, _> holding the given keys under the current
        // hash seed (C20 seed search); built the way libcnb builds its maps (collect from a Vec)
        let m: std::collections::HashMap<String, std::path::PathBuf> = a[2..].iter().map(|k| (k.clone(), std::path::PathBuf::from(k))).collect();
        println!("{}", m.keys().cloned().collect::<Vec<_>>().join(" "));
        return;
    }
    let root = std::path::PathBuf::from(&a[1]);
    let script: serde_json::Value = serde_json::from_str(&std::fs::read_to_string(&a[2]).expect("script")).expect("json");
    let ctx = mk_context_existing(&root);
    let ops = script["ops"].as_array().cloned().unwrap_or_default();
    // marker syscall so that the orchestrator can tell start-up from the operation
    let _ = std::fs::metadata(root.join(".oprunner-start"));
    // the verdict is the exit status; diagnostics must never influence it (a second injected fault
    // may land on this very write)
    use std::io::Write;
    match vh::vbscript::run_ops(&ctx, &ops, &root.join("buildpack/src")) {
        Ok(()) => std::process::exit(0),
        Err(e) => {
            let _ = writeln!(std::io::stderr(), "ERR {}", format!("{e:?}").replace('\n', " "));
            std::process::exit(3)
        }
    }
}
