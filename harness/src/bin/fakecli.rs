//! Stand-in for `docker` and `pack` (symlinked under both names into a private PATH directory).
//! Appends {"n", "prog", "argv"} to $FAKECLI_LOG and exits 1 for the invocation numbers listed
//! in $FAKECLI_FAIL (comma separated, 1-based), else 0. `docker port` prints an address.
//! Container existence is tracked in `$FAKECLI_LOG.containers`: `docker run --name X` creates X
//! unless its invocation number is also listed in $FAKECLI_HARD (the daemon rejected the request
//! at create time, e.g. a bind mount with a missing source: no container exists afterwards);
//! `docker logs|exec|port` naming a container that does not exist exit 1 ("No such container") -
//! a consequence of the earlier failure, not a further fault; `docker rm --force` of a missing
//! container exits 0 as the real CLI does. Images likewise (`$FAKECLI_LOG.images`): only a
//! successful `pack build` creates one; `docker rmi`, `docker run` and `pack sbom download` naming a
//! missing image fail as a consequence (exit 1 / 125).
use std::io::Write;
fn main() {
    let args: Vec<String> = std::env::args().collect();
    let prog = std::path::Path::new(&args[0]).file_name().map(|s| s.to_string_lossy().to_string()).unwrap_or_default();
    let log = std::env::var("FAKECLI_LOG").expect("FAKECLI_LOG");
    let n = std::fs::read_to_string(&log).map(|s| s.lines().count()).unwrap_or(0) + 1;
    let mut f = std::fs::OpenOptions::new().create(true).append(true).open(&log).unwrap();
    // for `pack build`: what the --path directory holds at the time of the call (C17: preprocessor)
    let mut listing = serde_json::Map::new();
    if prog == "pack" {
        if let Some(i) = args.iter().position(|a| a == "--path") {
            if let Some(p) = args.get(i + 1) {
                fn walk(base: &std::path::Path, d: &std::path::Path, out: &mut serde_json::Map<String, serde_json::Value>) {
                    if let Ok(rd) = std::fs::read_dir(d) {
                        for e in rd.flatten() {
                            let p = e.path();
                            if p.is_dir() {
                                walk(base, &p, out);
                            } else if let Ok(c) = std::fs::read_to_string(&p) {
                                let rel = p.strip_prefix(base).unwrap().to_string_lossy().to_string();
                                // files the owner may execute are listed a second time under "<name>#exec"
                                // (pack copies the app with its permission bits)
                                use std::os::unix::fs::PermissionsExt;
                                if std::fs::metadata(&p).map(|m| m.permissions().mode() & 0o100 != 0).unwrap_or(false) {
                                    out.insert(format!("{rel}#exec"), serde_json::Value::String("yes".into()));
                                }
                                out.insert(rel, serde_json::Value::String(c));
                            }
                        }
                    }
                }
                let base = std::path::Path::new(p);
                walk(base, base, &mut listing);
            }
        }
    }
    // for `pack build`: what every --buildpack directory holds at the time of the call
    let mut bp_listings = serde_json::Map::new();
    if prog == "pack" {
        for (i, a) in args.iter().enumerate() {
            if a == "--buildpack" {
                if let Some(p) = args.get(i + 1) {
                    let base = std::path::Path::new(p);
                    // only absolute paths (what on-the-fly packaging hands over); a relative reference is just logged
                    if base.is_absolute() && base.is_dir() {
                        let mut entries = Vec::new();
                        fn walk2(base: &std::path::Path, d: &std::path::Path, out: &mut Vec<String>) {
                            if let Ok(rd) = std::fs::read_dir(d) {
                                for e in rd.flatten() {
                                    let p = e.path();
                                    let rel = p.strip_prefix(base).unwrap().to_string_lossy().to_string();
                                    let md = std::fs::symlink_metadata(&p).unwrap();
                                    if md.file_type().is_symlink() {
                                        out.push(format!("{rel} -> {}", std::fs::read_link(&p).unwrap().display()));
                                    } else if md.is_dir() {
                                        out.push(format!("{rel}/"));
                                        walk2(base, &p, out);
                                    } else {
                                        out.push(rel);
                                    }
                                }
                            }
                        }
                        walk2(base, base, &mut entries);
                        entries.sort();
                        bp_listings.insert(p.clone(), serde_json::json!(entries));
                    }
                }
            }
        }
    }
    writeln!(f, "{}", serde_json::json!({"n": n, "prog": prog, "argv": &args[1..], "path_listing": listing, "buildpack_listings": bp_listings, "cwd": std::env::current_dir().ok()})).unwrap();
    let fail: Vec<usize> = std::env::var("FAKECLI_FAIL").unwrap_or_default().split(',').filter_map(|x| x.parse().ok()).collect();
    let hard: Vec<usize> = std::env::var("FAKECLI_HARD").unwrap_or_default().split(',').filter_map(|x| x.parse().ok()).collect();
    // image existence: a successful `pack build IMAGE` creates the image; `docker rmi` / `docker run`
    // / `pack sbom download` naming an image that does not exist fail as a consequence
    {
        let img_path = format!("{log}.images");
        let mut images: Vec<String> = std::fs::read_to_string(&img_path).map(|s| s.lines().map(String::from).collect()).unwrap_or_default();
        let valued = ["--builder", "--cache", "--path", "--pull-policy", "--buildpack", "--env", "--output-dir", "--name", "--platform", "--entrypoint", "--publish", "--mount"];
        let first_positional = |from: usize| -> Option<String> {
            let mut i = from;
            while i < args.len() {
                if args[i].starts_with("--") {
                    if valued.contains(&args[i].as_str()) {
                        i += 1;
                    }
                } else {
                    return Some(args[i].clone());
                }
                i += 1;
            }
            None
        };
        let a1 = args.get(1).map(|s| s.as_str());
        let a2 = args.get(2).map(|s| s.as_str());
        let mut consequence: Option<String> = None;
        if prog == "pack" && a1 == Some("build") {
            if let Some(img) = first_positional(2) {
                if !fail.contains(&n) && !images.contains(&img) {
                    images.push(img);
                }
            }
        } else if prog == "pack" && a1 == Some("sbom") && a2 == Some("download") {
            if let Some(img) = first_positional(3) {
                if !images.contains(&img) {
                    consequence = Some(format!("ERROR: image '{img}' cannot be found"));
                }
            }
        } else if prog == "docker" && (a1 == Some("rmi") || (a1 == Some("image") && (a2 == Some("rm") || a2 == Some("remove")))) {
            let from = if a1 == Some("rmi") { 2 } else { 3 };
            let named: Vec<String> = args[from..].iter().filter(|x| !x.starts_with("--")).cloned().collect();
            if named.iter().any(|x| !images.contains(x)) {
                consequence = Some("Error response from daemon: No such image".into());
            }
            images.retain(|x| !named.contains(x));
        } else if prog == "docker" && a1 == Some("run") {
            if let Some(img) = first_positional(2) {
                if !images.contains(&img) {
                    consequence = Some(format!("Unable to find image '{img}' locally"));
                }
            }
        }
        std::fs::write(&img_path, images.join("\n")).unwrap();
        if let Some(msg) = consequence {
            eprintln!("{msg}");
            std::process::exit(if prog == "docker" && a1 == Some("run") { 125 } else { 1 });
        }
    }
    if prog == "docker" {
        let state_path = format!("{log}.containers");
        let mut existing: Vec<String> = std::fs::read_to_string(&state_path).map(|s| s.lines().map(String::from).collect()).unwrap_or_default();
        let mut a: Vec<&str> = args[1..].iter().map(|s| s.as_str()).collect();
        if a.first() == Some(&"container") {
            a.remove(0);
        }
        let positional = |skip_valued: &[&str]| -> Option<String> {
            let mut i = 1;
            while i < a.len() {
                if a[i].starts_with("--") {
                    if skip_valued.contains(&a[i]) {
                        i += 1;
                    }
                } else {
                    return Some(a[i].to_string());
                }
                i += 1;
            }
            None
        };
        match a.first().copied() {
            Some("run") => {
                if let Some(i) = a.iter().position(|x| *x == "--name") {
                    if let Some(name) = a.get(i + 1) {
                        if !hard.contains(&n) {
                            existing.push(name.to_string());
                        }
                    }
                }
            }
            Some("rm") => {
                existing.retain(|c| !a[1..].contains(&c.as_str()));
            }
            Some("logs") | Some("exec") | Some("port") => {
                if let Some(c) = positional(&[]) {
                    if !existing.contains(&c) {
                        eprintln!("Error response from daemon: No such container: {c}");
                        std::process::exit(1);
                    }
                }
            }
            _ => {}
        }
        std::fs::write(&state_path, existing.join("\n")).unwrap();
    }
    if fail.contains(&n) || hard.contains(&n) {
        // like the real CLIs a failing command is chatty: ~60 kB of progress output made of
        // multi-byte characters (check marks, box drawing) on both streams, then the error
        let noise = "\u{2713} step \u{2500}\u{2500} ok\n".repeat(2500);
        print!("{noise}");
        eprint!("{noise}");
        eprintln!("fakecli: scripted failure of invocation {n}");
        std::process::exit(1);
    }
    if prog == "docker" && args.get(1).map(|s| s.as_str()) == Some("port") {
        println!("127.0.0.1:49153");
    } else {
        println!("fake {prog} ok");
    }
}
