//! Explorers for the layer properties C01 C02 C03 C04 C10 C11 (in-process, real libcnb code).
mod c01;
mod c02;
mod c03;
mod c04;
mod c10;
mod c11;

use vh::report::Args;

fn main() {
    let args = Args::parse();
    match args.sub.as_str() {
        "c01" => c01::run(&args),
        "c02" => c02::run(&args),
        "c03" => c03::run(&args),
        "c11" => c11::run(&args),
        "c11-worker" => c11::worker(&args),
        "c10" => c10::run(&args),
        "c04" => c04::run(&args),
        other => {
            eprintln!("unknown subcommand {other}");
            std::process::exit(2);
        }
    }
}
