//! C11 — deleting / recreating a layer never touches anything outside that layer.
//! All generated layer trees up to a node bound (files, directories of four modes, ten symlink
//! kinds, two levels) plus top-level variants, each run through three deleting operations, as
//! root and as uid 65534 (worker processes that dropped privileges), with canaries beside the
//! layer. Oracle: snapshot of everything outside the layer identical before/after.
#![allow(deprecated)]
use libcnb::build::BuildContext;
use libcnb::data::layer::LayerName;
use libcnb::data::layer_content_metadata::LayerTypes;
use libcnb::generic::GenericMetadata;
use libcnb::layer::{CachedLayerDefinition, ExistingLayerStrategy, InvalidMetadataAction, Layer, LayerData, LayerResult, LayerResultBuilder, RestoredLayerAction, UncachedLayerDefinition};
use serde::{Deserialize, Serialize};
use serde_json::json;
use std::collections::BTreeSet;
use std::io::{BufRead, BufReader, Write};
use std::os::unix::ffi::OsStrExt;
use std::path::{Path, PathBuf};
use std::process::{Child, ChildStdin, ChildStdout, Command, Stdio};
use vh::layermodel::*;
use vh::report::{Args, Reporter};
use vh::snapshot::{Node, Scratch, Snapshot};

pub const OPS: [&str; 3] = ["uncached", "cached-delete", "trait-recreate"];
const NOBODY: u32 = 65534;

#[derive(Clone, Debug, PartialEq, Eq, PartialOrd, Ord, Serialize, Deserialize)]
pub enum T {
    File,
    Link(u8),
    Dir(u32, Vec<T>),
    /// an entry that is neither a plain private file, a directory nor a symlink: 0 = FIFO, 1 = UNIX
    /// socket, 2 = a hard link to the canary file outside the layers directory, 3 = a regular file
    /// whose name is not valid UTF-8
    Special(u8),
}

pub const LINK_KINDS: [&str; 10] = ["inside-file", "inside-dir-dot", "sibling-layer-dir", "sibling-layer-file", "outside-dir-abs", "outside-file-abs", "outside-dir-rel", "dangling", "self-loop", "pair-loop"];
const MODES: [u32; 4] = [0o755, 0o555, 0o666, 0o000];

fn leaf_types(level: usize) -> Vec<T> {
    let mut v = vec![T::File];
    for k in 0..LINK_KINDS.len() as u8 {
        v.push(T::Link(k));
    }
    for m in MODES {
        v.push(T::Dir(m, vec![]));
    }
    v.push(T::Special(0));
    v.push(T::Special(1));
    v.push(T::Special(2));
    v.push(T::Special(3));
    let _ = level;
    v
}

fn size(t: &T) -> usize {
    match t {
        T::Dir(_, k) => 1 + k.iter().map(size).sum::<usize>(),
        _ => 1,
    }
}

/// all sorted lists (multisets) of <= 3 entries with total node count <= budget
fn gen_lists(budget: usize, level: usize) -> Vec<Vec<T>> {
    let mut entries: Vec<T> = leaf_types(level);
    if level == 1 && budget >= 2 {
        for m in MODES {
            for kids in gen_lists(budget - 1, 2) {
                if !kids.is_empty() {
                    entries.push(T::Dir(m, kids));
                }
            }
        }
    }
    entries.sort();
    entries.dedup();
    let mut out = vec![vec![]];
    fn rec(entries: &[T], start: usize, cur: &mut Vec<T>, used: usize, budget: usize, out: &mut Vec<Vec<T>>) {
        if cur.len() == 3 {
            return;
        }
        for i in start..entries.len() {
            let s = size(&entries[i]);
            if used + s > budget {
                continue;
            }
            cur.push(entries[i].clone());
            out.push(cur.clone());
            rec(entries, i, cur, used + s, budget, out);
            cur.pop();
        }
    }
    rec(&entries, 0, &mut Vec::new(), 0, budget, &mut out);
    out
}

fn link_target(kind: u8, root: &Path, depth: usize, idx: usize) -> Vec<u8> {
    let up = "../".repeat(depth);
    match kind {
        0 => b"e0".to_vec(),
        1 => b".".to_vec(),
        2 => format!("{up}../b").into_bytes(),
        3 => format!("{up}../b/keep").into_bytes(),
        4 => root.join("outside/dir555").as_os_str().as_bytes().to_vec(),
        5 => root.join("outside/file").as_os_str().as_bytes().to_vec(),
        6 => format!("{up}../../outside/dir555").into_bytes(),
        7 => b"nowhere".to_vec(),
        8 => format!("e{idx}").into_bytes(),
        _ => format!("e{}", (idx + 1) % 2).into_bytes(),
    }
}

fn put_tree(s: &mut Snapshot, prefix: &str, entries: &[T], root: &Path, depth: usize) {
    for (i, t) in entries.iter().enumerate() {
        let key = format!("{prefix}/e{i}");
        match t {
            T::File => s.insert(&key, Node::File { mode: 0o444, data: b"x".to_vec() }),
            T::Link(k) => s.insert(&key, Node::Link { target: link_target(*k, root, depth, i) }),
            T::Special(2) => s.insert(&key, Node::Other { what: "hardlink:outside/file".into() }),
            T::Special(3) => {
                let mut raw = key.clone().into_bytes();
                raw.extend_from_slice(b"-caf\xe9");
                s.0.insert(raw, Node::File { mode: 0o644, data: b"x".to_vec() });
            }
            T::Special(k) => s.insert(&key, Node::Other { what: if *k == 0 { "fifo".into() } else { "socket".into() } }),
            T::Dir(m, kids) => {
                s.insert(&key, Node::Dir { mode: *m });
                put_tree(s, &key, kids, root, depth + 1);
            }
        }
    }
}

#[derive(Clone, Debug, PartialEq, Eq, Serialize, Deserialize)]
pub enum Top {
    /// a real directory holding the tree
    Real,
    /// `<layers>/a` is a symlink to a directory inside `<layers>` holding the tree
    LinkInside,
    /// `<layers>/a` is a symlink to a directory outside `<layers>` (a canary)
    LinkOutside,
    /// real directory, but `a.toml` is a symlink to a canary file
    TomlLink,
    /// real directory, but `a.toml` is a dangling symlink to a path beside the layers directory
    TomlDangling,
}

#[derive(Clone, Debug, Serialize, Deserialize)]
pub struct Case {
    top: Top,
    tree: Vec<T>,
    /// mode of the layers directory itself (the parent of the layer: outside the layer)
    #[serde(default = "default_layers_mode")]
    layers_mode: u32,
    /// the layer is the only entry of the layers directory (no siblings, no store.toml)
    #[serde(default)]
    lonely: bool,
    /// the operations name the layer "a/" instead of "a"
    #[serde(default)]
    name_slash: bool,
}

fn default_layers_mode() -> u32 {
    0o755
}

/// the whole scratch tree (relative to the scratch root)
fn world(case: &Case, root: &Path) -> Snapshot {
    let mut s = Snapshot::new();
    for d in ["layers", "app", "buildpack", "outside"] {
        s.insert(d, Node::dir());
    }
    s.insert("layers", Node::Dir { mode: case.layers_mode });
    s.insert("outside/file", Node::File { mode: 0o644, data: b"# canary\n".to_vec() });
    s.insert("outside/dir555", Node::Dir { mode: 0o555 });
    s.insert("outside/dir555/file", Node::File { mode: 0o444, data: b"canary".to_vec() });
    s.insert("outside/dir555/sub", Node::Dir { mode: 0o555 });
    s.insert("outside/dir555/sub/deep", Node::File { mode: 0o444, data: b"deep".to_vec() });
    if !case.lonely {
        s.insert("layers/store.toml", Node::file(b"[metadata]\nk = 1\n"));
    }
    // siblings: unrelated, sharing a prefix, and "<name>.<more>" (whose toml/SBOM names start with "a.")
    // ... and names an implementation might use for its own temporaries next to layer `a`
    let sibs: &[&str] = if case.lonely { &[] } else { &["b", "ab", "a.x", "a.deleting", "a.tmp", "a.bak", "a.old", "a~", ".a", ".a.tmp"] };
    for sib in sibs {
        s.insert(&format!("layers/{sib}"), Node::Dir { mode: 0o555 });
        s.insert(&format!("layers/{sib}/keep"), Node::File { mode: 0o444, data: b"keep".to_vec() });
        s.insert(&format!("layers/{sib}.toml"), Node::file(b"[types]\ncache = true\n"));
        s.insert(&format!("layers/{sib}.sbom.cdx.json"), Node::file(b"{}"));
    }
    if !case.lonely {
        s.insert("layers/a.sbom.cdx.json", Node::file(b"{}"));
    }
    match case.top {
        Top::Real | Top::TomlLink | Top::TomlDangling => {
            s.insert("layers/a", Node::dir());
            put_tree(&mut s, "layers/a", &case.tree, root, 0);
        }
        Top::LinkInside => {
            s.insert("layers/a", Node::Link { target: b"real-a".to_vec() });
            s.insert("layers/real-a", Node::dir());
            put_tree(&mut s, "layers/real-a", &case.tree, root, 0);
        }
        Top::LinkOutside => {
            s.insert("layers/a", Node::Link { target: root.join("outside/dir555").as_os_str().as_bytes().to_vec() });
        }
    }
    if case.top == Top::TomlLink {
        s.insert("layers/a.toml", Node::Link { target: root.join("outside/file").as_os_str().as_bytes().to_vec() });
    } else if case.top == Top::TomlDangling {
        s.insert("layers/a.toml", Node::Link { target: root.join("outside/not-there.toml").as_os_str().as_bytes().to_vec() });
    } else {
        s.insert("layers/a.toml", Node::file(b"[types]\ncache = true\nlaunch = true\n\n[metadata]\nv = 1\n"));
    }
    s
}

fn is_layer_path(k: &[u8]) -> bool {
    k == b"layers/a" || k.starts_with(b"layers/a/") || k == b"layers/a.toml" || k.starts_with(b"layers/a.sbom.")
}

fn chown_all(root: &Path, uid: u32) {
    fn rec(p: &Path, uid: u32) {
        let c = std::ffi::CString::new(p.as_os_str().as_bytes()).unwrap();
        unsafe { libc::lchown(c.as_ptr(), uid, uid) };
        if let Ok(md) = std::fs::symlink_metadata(p) {
            if md.is_dir() {
                if let Ok(rd) = std::fs::read_dir(p) {
                    for e in rd.flatten() {
                        rec(&e.path(), uid);
                    }
                }
            }
        }
    }
    rec(root, uid);
}

// ---------------- worker (runs the real operation, possibly unprivileged) ----------------

struct RecreateLayer;
impl Layer for RecreateLayer {
    type Buildpack = VB;
    type Metadata = GenericMetadata;
    fn types(&self) -> LayerTypes {
        LayerTypes { launch: true, build: false, cache: true }
    }
    fn create(&mut self, _c: &BuildContext<VB>, _p: &Path) -> Result<LayerResult<GenericMetadata>, VErr> {
        LayerResultBuilder::new(None).build()
    }
    fn existing_layer_strategy(&mut self, _c: &BuildContext<VB>, _d: &LayerData<GenericMetadata>) -> Result<ExistingLayerStrategy, VErr> {
        Ok(ExistingLayerStrategy::Recreate)
    }
}

fn context_for(root: &Path) -> BuildContext<VB> {
    // directories already exist (created by the orchestrator); mk_context only joins paths then
    mk_context(root)
}

pub fn run_op(op: &str, root: &Path) -> Result<(), String> {
    let ctx = context_for(root);
    // an operation name ending in '/' addresses the layer as "a/" (a valid LayerName that denotes the same directory)
    let (op, name): (&str, LayerName) = match op.strip_suffix('/') {
        Some(o) => (o, "a/".parse().unwrap()),
        None => (op, "a".parse().unwrap()),
    };
    match op {
        "uncached" => ctx.uncached_layer(&name, UncachedLayerDefinition { build: true, launch: false }).map(|_| ()).map_err(|e| format!("{e:?}")),
        "cached-delete" => ctx
            .cached_layer(&name, CachedLayerDefinition { build: true, launch: false, invalid_metadata_action: &|_| InvalidMetadataAction::DeleteLayer::<GenericMetadata>, restored_layer_action: &|_: &GenericMetadata, _| RestoredLayerAction::DeleteLayer })
            .map(|_| ())
            .map_err(|e| format!("{e:?}")),
        "trait-recreate" => ctx.handle_layer(name, RecreateLayer).map(|_| ()).map_err(|e| format!("{e:?}")),
        other => Err(format!("unknown op {other}")),
    }
}

pub fn worker(args: &Args) {
    let uid: u32 = args.rest.first().and_then(|s| s.parse().ok()).unwrap_or(0);
    if uid != 0 {
        unsafe {
            if libc::setgroups(0, std::ptr::null()) != 0 || libc::setgid(uid) != 0 || libc::setuid(uid) != 0 {
                eprintln!("cannot drop privileges");
                std::process::exit(3);
            }
        }
    }
    let stdin = std::io::stdin();
    let mut out = std::io::stdout();
    for line in stdin.lock().lines() {
        let line = line.unwrap();
        let (op, root) = line.split_once(' ').unwrap();
        let r = run_op(op, Path::new(root));
        let reply = match r {
            Ok(()) => "ok".to_string(),
            Err(e) => format!("err {}", e.replace('\n', " ")),
        };
        writeln!(out, "{reply}").unwrap();
        out.flush().unwrap();
    }
}

struct Worker {
    child: Child,
    stdin: ChildStdin,
    stdout: BufReader<ChildStdout>,
}
impl Worker {
    fn spawn(uid: u32) -> Worker {
        let exe = std::env::current_exe().unwrap();
        let mut child = Command::new(exe).arg("c11-worker").arg(uid.to_string()).stdin(Stdio::piped()).stdout(Stdio::piped()).spawn().expect("spawn worker");
        let stdin = child.stdin.take().unwrap();
        let stdout = BufReader::new(child.stdout.take().unwrap());
        Worker { child, stdin, stdout }
    }
    fn call(&mut self, op: &str, root: &Path) -> Result<(), String> {
        writeln!(self.stdin, "{op} {}", root.display()).map_err(|e| format!("worker write: {e}"))?;
        let mut line = String::new();
        self.stdout.read_line(&mut line).map_err(|e| format!("worker read: {e}"))?;
        let line = line.trim_end();
        if line == "ok" {
            Ok(())
        } else if let Some(e) = line.strip_prefix("err ") {
            Err(e.to_string())
        } else {
            Err(format!("WORKER-DIED {line}"))
        }
    }
}
impl Drop for Worker {
    fn drop(&mut self) {
        let _ = self.child.kill();
        let _ = self.child.wait();
    }
}

fn only_benign(tree: &[T]) -> bool {
    tree.iter().all(|t| match t {
        T::File => true,
        T::Special(k) => *k != 2,
        T::Link(k) => [0u8, 1, 7, 8, 9].contains(k),
        T::Dir(_, kids) => only_benign(kids),
    })
}

type Viol = (String, String, serde_json::Value);

fn judge(case: &Case, op: &str, uid: u32, w: &mut Worker) -> (Vec<Viol>, String) {
    let sc = Scratch::new("c11");
    let root = sc.path.clone();
    let before = world(case, &root);
    before.materialise(&root).expect("materialise");
    // a hard link reads back as a regular file: compare with what is really on disk
    let before = if before.0.values().any(|n| matches!(n, Node::Other { what } if what.starts_with("hardlink:"))) { Snapshot::take(&root).expect("snapshot") } else { before };
    if uid != 0 {
        chown_all(&root, uid);
        // the scratch root's parent must be traversable
    }
    let result = w.call(&format!("{op}{}", if case.name_slash { "/" } else { "" }), &root);
    let after = Snapshot::take(&root).expect("snapshot");
    let mut v = Vec::new();
    let replay = json!({"case": case, "op": op, "uid": uid});
    let who = if uid == 0 { "root" } else { "uid 65534" };
    if let Err(e) = &result {
        if e.starts_with("WORKER-DIED") {
            v.push(("worker-died".into(), format!("{op} as {who} on {case:?}: worker process died"), replay.clone()));
        }
    }
    let outside = |s: &Snapshot| Snapshot(s.0.iter().filter(|(k, _)| !is_layer_path(k)).map(|(k, n)| (k.clone(), n.clone())).collect());
    let (ob, oa) = (outside(&before), outside(&after));
    if ob != oa {
        let d = ob.diff(&oa, 6);
        let what_top = match case.top {
            Top::LinkOutside => "layer-path-is-symlink-outside",
            Top::LinkInside => "layer-path-is-symlink-inside",
            Top::TomlLink => "toml-is-symlink",
            Top::TomlDangling => "toml-is-dangling-symlink",
            Top::Real => "nested",
        };
        v.push((format!("escape:{what_top}{}", if case.name_slash { ":name-with-trailing-slash" } else { "" }), format!("{op} as {who} on {:?} tree {:?} (result {:?}) changed things outside the layer: {:?}", case.top, case.tree, result.as_ref().map_err(|e| e.chars().take(120).collect::<String>()), d), replay.clone()));
    }
    if result.is_ok() {
        // all of the layer's own entries are gone and a/ is a fresh empty real directory
        let leftovers: Vec<String> = after.0.keys().filter(|k| k.starts_with(b"layers/a/")).map(|k| String::from_utf8_lossy(k).to_string()).collect();
        if !matches!(after.get("layers/a"), Some(Node::Dir { .. })) {
            v.push(("layer-dir-not-fresh".into(), format!("{op} as {who} on {case:?} succeeded but layers/a is {:?}", after.get("layers/a")), replay.clone()));
        } else if !leftovers.is_empty() {
            v.push(("layer-entries-left".into(), format!("{op} as {who} on {case:?} succeeded but entries remain: {leftovers:?}"), replay.clone()));
        }
    } else if case.top == Top::Real && only_benign(&case.tree) && (uid == 0 || case.layers_mode & 0o200 != 0) {
        v.push((format!("delete-failed:{}", if uid == 0 { "root" } else { "owner" }), format!("{op} as {who} on tree {:?} failed: {:?}", case.tree, result), replay.clone()));
    }
    let outcome = format!("{}:{}", if result.is_ok() { "ok" } else { "err" }, if ob == oa { "contained" } else { "escaped" });
    (v, outcome)
}

pub fn run(args: &Args) {
    let mut rep = Reporter::new("C11", "exploration", args);
    let mut cases: Vec<Case> = Vec::new();
    if let Some(path) = &args.replay {
        let doc: serde_json::Value = serde_json::from_str(&std::fs::read_to_string(path).expect("replay file")).expect("json");
        let case: Case = serde_json::from_value(doc["replay"]["case"].clone()).unwrap();
        let op = doc["replay"]["op"].as_str().unwrap().to_string();
        let uid = doc["replay"]["uid"].as_u64().unwrap() as u32;
        let mut w = Worker::spawn(uid);
        let (v, outcome) = judge(&case, &op, uid, &mut w);
        println!("case {case:?} op {op} uid {uid}: {outcome}");
        for (sig, what, r) in v {
            println!("DIFFERENCE: {what}");
            rep.violation(&sig, what, r);
        }
        rep.finish();
    }
    let budget = if args.thorough() { 4 } else { 3 };
    let trees = gen_lists(budget, 1);
    for t in &trees {
        cases.push(Case { top: Top::Real, tree: t.clone(), layers_mode: 0o755, lonely: false, name_slash: false });
    }
    // top-level variants with every tree of <= 2 nodes
    for t in gen_lists(2, 1) {
        cases.push(Case { top: Top::LinkInside, tree: t.clone(), layers_mode: 0o755, lonely: false, name_slash: false });
        cases.push(Case { top: Top::TomlLink, tree: t.clone(), layers_mode: 0o755, lonely: false, name_slash: false });
        // a read-only layers directory (root can still delete in it; its mode is outside the layer)
        cases.push(Case { top: Top::Real, tree: t.clone(), layers_mode: 0o555, lonely: false, name_slash: false });
    }
    cases.push(Case { top: Top::LinkOutside, tree: vec![], layers_mode: 0o755, lonely: false, name_slash: false });
    // the layer as the only entry of the layers directory (mode 0750: a re-created directory would differ)
    for t in gen_lists(1, 1) {
        cases.push(Case { top: Top::Real, tree: t.clone(), layers_mode: 0o750, lonely: true, name_slash: false });
    }
    cases.push(Case { top: Top::LinkOutside, tree: vec![], layers_mode: 0o555, lonely: false, name_slash: false });
    // the layer named with a trailing slash ("a/" is a valid LayerName for the same directory)
    cases.push(Case { top: Top::LinkOutside, tree: vec![], layers_mode: 0o755, lonely: false, name_slash: true });
    for t in gen_lists(2, 1) {
        cases.push(Case { top: Top::TomlDangling, tree: t.clone(), layers_mode: 0o755, lonely: false, name_slash: false });
    }
    // self-test: unprivileged workers must really be unprivileged
    {
        let sc = Scratch::new("c11self");
        std::fs::create_dir_all(sc.path.join("layers")).unwrap();
        std::fs::create_dir_all(sc.path.join("app")).unwrap();
        std::fs::create_dir_all(sc.path.join("buildpack")).unwrap();
        let mut w = Worker::spawn(NOBODY);
        // root-owned 0755 layers dir: uid 65534 cannot create a layer in it
        if w.call("uncached", &sc.path).is_ok() {
            rep.machinery("self-test failed: the uid-65534 worker could write into a root-owned directory (privileges not dropped?)".into());
            rep.finish();
        }
    }
    let nthreads = vh::engine::num_threads();
    let chunks: Vec<Vec<Case>> = (0..nthreads).map(|i| cases.iter().skip(i).step_by(nthreads).cloned().collect()).collect();
    let results: Vec<(Vec<Viol>, Vec<String>, u64)> = std::thread::scope(|s| {
        let hs: Vec<_> = chunks
            .into_iter()
            .map(|chunk| {
                s.spawn(move || {
                    let mut wr = Worker::spawn(0);
                    let mut wn = Worker::spawn(NOBODY);
                    let mut viols = Vec::new();
                    let mut outcomes = Vec::new();
                    let mut n = 0u64;
                    for case in &chunk {
                        for op in OPS {
                            for uid in [0u32, NOBODY] {
                                let w = if uid == 0 { &mut wr } else { &mut wn };
                                let (v, o) = judge(case, op, uid, w);
                                if v.iter().any(|x| x.0 == "worker-died") {
                                    *w = Worker::spawn(uid);
                                }
                                viols.extend(v);
                                outcomes.push(format!("{op}:{uid}:{o}"));
                                n += 1;
                            }
                        }
                    }
                    (viols, outcomes, n)
                })
            })
            .collect();
        hs.into_iter().map(|h| h.join().unwrap()).collect()
    });
    let mut n = 0;
    let mut outcomes = BTreeSet::new();
    for (v, o, k) in results {
        n += k;
        outcomes.extend(o);
        for (sig, what, r) in v {
            rep.violation(&sig, what, r);
        }
    }
    let nontrivial = cases.iter().filter(|c| c.top != Top::Real || c.tree.iter().any(|t| !matches!(t, T::File))).count() as u64;
    rep.cov("evaluations", n);
    rep.cov("trees", cases.len() as u64);
    rep.cov("distinct_nontrivial", nontrivial);
    rep.cov("distinct_outcomes", json!(outcomes));
    rep.cov("rule", "every multiset tree of <= N nodes over {file(0444), dir x modes {755,555,666,000} with children, FIFO, UNIX socket, a hard link to the canary file outside (its mode and content must survive), a file whose name is not UTF-8, 10 symlink kinds (inside file/dir, sibling layer dir/file, outside dir/file absolute and relative, dangling, self loop, pair loop)}, two levels, <= 3 entries per directory; plus layer path / a.toml being symlinks (a.toml also dangling), the layer addressed as `a/`, and a read-only (0555) layers directory (each with every <=2-node tree), and the layer as the only entry of a 0750 layers directory; each x 3 operations (uncached_layer over existing, cached_layer Delete, handle_layer Recreate) x {root, uid 65534 owner}; non-trivial = trees containing a directory or symlink, or a top-level variant");
    rep.cov("bound", json!({"max_nodes": budget, "levels": 2, "ops": OPS, "uids": [0, NOBODY]}));
    rep.cov("exhaustive", true);
    rep.sample(json!(cases[cases.len() / 2]));
    rep.sample(json!(cases[cases.len() - 1]));
    rep.sample(json!(cases[cases.len() / 3]));
    rep.assume("success is required only for trees of files, directories (any mode, caller is owner or root) and symlinks that stay inside the layer; for other trees only containment is judged");
    rep.finish();
}

#[allow(dead_code)]
fn unused(_: PathBuf) {}
