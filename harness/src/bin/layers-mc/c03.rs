//! C03 — layer env on-disk layout and round trip.
//! (a) write side: state graph of successive real `LayerEnv::write_to_layer_dir` calls into one
//!     directory (depth 2 = all ordered pairs old,new); in every reached state the directory must
//!     be exactly the spec layout of the *last* environment plus the untouched sentinels, and the
//!     real `read_from_layer_dir` must give an environment that applies like the written one.
//! (b) read side: every spec-shaped env directory with <= k files from a suffix alphabet, compared
//!     with a reference reader (A.4).
use libcnb::layer_env::LayerEnv;
use rayon::prelude::*;
use serde_json::json;
use stateright::{Model, Property};
use std::collections::BTreeMap;
use std::sync::Arc;
use vh::engine::{BfsOpts, bfs_levels};
use vh::envref::*;
use vh::report::{Args, Reporter};
use vh::snapshot::{Node, Scratch, Snapshot, lossy};

use crate::c04::{fmt_abs, fmt_plain};

const ENV_DIRS: [&str; 3] = ["env", "env.build", "env.launch"];

fn sentinels() -> Snapshot {
    let mut s = Snapshot::new();
    s.insert("data", Node::dir());
    s.insert("data/x", Node::file(b"payload"));
    s.insert("exec.d", Node::dir());
    s.insert("exec.d/p", Node::File { mode: 0o755, data: b"#!/bin/sh\n".to_vec() });
    s.insert("envx", Node::dir());
    s.insert("envx/KEEP", Node::file(b"1"));
    s.insert("env.keep", Node::file(b"2"));
    // directories whose names merely start like the env directories
    s.insert("env.d", Node::dir());
    s.insert("env.d/keep", Node::file(b"4"));
    s.insert("env.launch.bak", Node::dir());
    s.insert("env.launch.bak/A.override", Node::file(b"5"));
    s.insert("environment", Node::file(b"3"));
    s
}

/// A.4: the files an environment must be stored as.
pub fn spec_layout(abs: &AbsEnv) -> BTreeMap<Vec<u8>, Vec<u8>> {
    let mut m = BTreeMap::new();
    for ((s, b, n), v) in abs {
        let mut k = s.dir().into_bytes();
        k.push(b'/');
        k.extend_from_slice(n);
        k.push(b'.');
        k.extend_from_slice(b.suffix().as_bytes());
        m.insert(k, v.clone());
    }
    m
}

fn is_env_path(k: &[u8]) -> bool {
    let top = k.split(|b| *b == b'/').next().unwrap_or(&[]);
    ENV_DIRS.iter().any(|d| d.as_bytes() == top)
}

/// files (non-directories) found below the three env directories
fn env_files(s: &Snapshot) -> Result<BTreeMap<Vec<u8>, Vec<u8>>, String> {
    let mut m = BTreeMap::new();
    for (k, n) in &s.0 {
        if !is_env_path(k) {
            continue;
        }
        match n {
            Node::Dir { .. } => {}
            Node::File { data, .. } => {
                m.insert(k.clone(), data.clone());
            }
            other => return Err(format!("{} is {:?}", lossy(k), other)),
        }
    }
    Ok(m)
}

fn non_env(s: &Snapshot) -> Snapshot {
    Snapshot(s.0.iter().filter(|(k, _)| !is_env_path(k)).map(|(k, n)| (k.clone(), n.clone())).collect())
}

fn query_scopes() -> Vec<Sc> {
    vec![Sc::All, Sc::Build, Sc::Launch, Sc::Process("p".into()), Sc::Process("p.q".into()), Sc::Process("zz".into())]
}

fn start_envs(abs: &AbsEnv) -> Vec<PlainEnv> {
    let mut names: Vec<Bytes> = abs.keys().map(|(_, _, n)| n.clone()).collect();
    names.sort();
    names.dedup();
    names.truncate(3);
    let mut v = vec![PlainEnv::new()];
    for n in &names {
        v.push([(n.clone(), b"".to_vec())].into_iter().collect());
        v.push([(n.clone(), b"x".to_vec())].into_iter().collect());
    }
    if names.is_empty() {
        v.push([(b"A".to_vec(), b"x".to_vec())].into_iter().collect());
    }
    v
}

/// compare an environment read by the real reader with the abstract expectation, by applying
fn compare_apply(read: &LayerEnv, written: Option<&LayerEnv>, abs: &AbsEnv) -> Option<(String, String)> {
    for q in query_scopes() {
        for st in start_envs(abs) {
            let st_real = real_plain(&st);
            let got = plain_of(&read.apply(q.real(), &st_real));
            if let Some(w) = written {
                let want_w = plain_of(&w.apply(q.real(), &st_real));
                if got != want_w {
                    let kind = match q { Sc::Process(_) => "process", _ => "plain" };
                    return Some((format!("roundtrip-differs-{kind}-scope"), format!("env {} read back applies for {:?} to {} as {} but the written value applies as {}", fmt_abs(abs), q, fmt_plain(&st), fmt_plain(&got), fmt_plain(&want_w))));
                }
            }
            let want = ref_apply(abs, &q, &st);
            if got != want {
                let kind = match q { Sc::Process(_) => "process", _ => "plain" };
                return Some((format!("read-differs-from-reference-{kind}-scope"), format!("directory holding {} read back applies for {:?} to {} as {} but the spec reading gives {}", fmt_abs(abs), q, fmt_plain(&st), fmt_plain(&got), fmt_plain(&want))));
            }
        }
    }
    None
}

#[derive(Clone, Debug, Hash, PartialEq)]
pub struct St {
    last: AbsEnv,
    snap: Snapshot,
    bad: Option<(String, String)>,
}

pub struct M {
    envs: Arc<Vec<AbsEnv>>,
}

fn has_process(a: &AbsEnv) -> bool {
    a.keys().any(|(s, _, _)| matches!(s, Sc::Process(_)))
}

impl Model for M {
    type State = St;
    type Action = usize;
    fn init_states(&self) -> Vec<St> {
        vec![St { last: AbsEnv::new(), snap: sentinels(), bad: None }]
    }
    fn actions(&self, _s: &St, out: &mut Vec<usize>) {
        out.extend(0..self.envs.len());
    }
    fn next_state(&self, s: &St, a: usize) -> Option<St> {
        let abs = &self.envs[a];
        let sc = Scratch::new("c03");
        let dir = sc.path.join("layer");
        std::fs::create_dir(&dir).unwrap();
        s.snap.materialise(&dir).expect("materialise");
        let written = real_env(abs);
        let mut bad = None;
        let p = if has_process(abs) { "-process-scope" } else { "" };
        if let Err(e) = written.write_to_layer_dir(&dir) {
            bad = Some((format!("write-failed{p}"), format!("writing {} over {} failed: {e}", fmt_abs(abs), fmt_abs(&s.last))));
        }
        let snap = Snapshot::take(&dir).expect("snapshot");
        if bad.is_none() {
            match env_files(&snap) {
                Err(e) => bad = Some(("layout-not-files".into(), e)),
                Ok(files) => {
                    let want = spec_layout(abs);
                    if files != want {
                        let stale = files.keys().any(|k| !want.contains_key(k));
                        let sig = if stale { "stale-or-foreign-env-file" } else { "missing-or-wrong-env-file" };
                        bad = Some((format!("{sig}{p}"), format!("after writing {} over {}: env files are {:?}, spec layout is {:?}", fmt_abs(abs), fmt_abs(&s.last), show(&files), show(&want))));
                    }
                }
            }
        }
        if bad.is_none() && non_env(&snap) != sentinels() {
            bad = Some(("touched-non-env".into(), format!("writing {} changed files outside the env directories: {:?}", fmt_abs(abs), sentinels().diff(&non_env(&snap), 5))));
        }
        if bad.is_none() {
            match LayerEnv::read_from_layer_dir(&dir) {
                Err(e) => bad = Some((format!("read-failed{p}"), format!("reading back {} failed: {e}", fmt_abs(abs)))),
                Ok(read) => bad = compare_apply(&read, Some(&written), abs),
            }
        }
        Some(St { last: abs.clone(), snap, bad })
    }
    fn properties(&self) -> Vec<Property<Self>> {
        vec![Property::always("layout == spec(last env) && round trip", |_, s: &St| s.bad.is_none())]
    }
}

fn show(m: &BTreeMap<Vec<u8>, Vec<u8>>) -> Vec<String> {
    m.iter().map(|(k, v)| format!("{}={:?}", lossy(k), lossy(v))).collect()
}

fn entry_alphabet(thorough: bool) -> Vec<AbsEnv> {
    let scopes = [Sc::All, Sc::Build, Sc::Launch, Sc::Process("p".into()), Sc::Process("p.q".into())];
    let names: Vec<&[u8]> = if thorough {
        vec![b"A", b"B.c", b".h", b"A.append", b"a b", b"\xff\xfe", "é".as_bytes()]
    } else {
        vec![b"A", b"B.c", b".h", b"\xff\xfe"]
    };
    let values: Vec<&[u8]> = if thorough { vec![b"", b"v", b"l1\nl2\n", b"\x00\xff", b"\n"] } else { vec![b"", b"\x00\xffl1\nl2\n"] };
    let mut v = vec![AbsEnv::new()];
    for s in &scopes {
        for b in BEHS {
            for n in &names {
                for val in &values {
                    let mut a = AbsEnv::new();
                    a.insert((s.clone(), b, n.to_vec()), val.to_vec());
                    v.push(a);
                }
            }
        }
    }
    // "full" multi-scope environments
    let mk = |items: &[(Sc, Beh, &[u8], &[u8])]| -> AbsEnv { items.iter().map(|(s, b, n, v)| ((s.clone(), *b, n.to_vec()), v.to_vec())).collect() };
    let p = || Sc::Process("p".into());
    let q = || Sc::Process("p.q".into());
    // every scope x every behaviour on one name
    let mut all = AbsEnv::new();
    for s in &scopes {
        for b in BEHS {
            all.insert((s.clone(), b, b"A".to_vec()), format!("{}-{}", s.dir(), b.suffix()).into_bytes());
        }
    }
    v.push(all);
    v.push(mk(&[(Sc::All, Beh::Append, b"A", b"1"), (Sc::All, Beh::Delim, b"A", b":"), (Sc::Build, Beh::Prepend, b"A", b"2"), (Sc::Launch, Beh::Override, b"A", b"3")]));
    v.push(mk(&[(Sc::Launch, Beh::Override, b"A", b"l"), (p(), Beh::Override, b"A", b"p"), (q(), Beh::Append, b"A", b"q")]));
    v.push(mk(&[(p(), Beh::Default, b"A", b"p"), (p(), Beh::Default, b"B.c", b"p2")]));
    v.push(mk(&[(q(), Beh::Prepend, b"A", b"q"), (q(), Beh::Delim, b"A", b",")]));
    v.push(mk(&[(Sc::All, Beh::Override, b"A", b"x"), (Sc::All, Beh::Override, b"A.append", b"y"), (Sc::All, Beh::Append, b"A", b"z")]));
    v.push(mk(&[(Sc::Build, Beh::Default, b"B.c", b"1"), (Sc::Build, Beh::Default, b"B", b"2"), (Sc::Build, Beh::Override, b"B.c.default", b"3")]));
    v.push(mk(&[(Sc::Launch, Beh::Append, b".h", b"1"), (Sc::Launch, Beh::Delim, b".h", b""), (Sc::All, Beh::Prepend, b".h", b"0")]));
    v.push(mk(&[(Sc::All, Beh::Override, b"\xff\xfe", b"\x00\xff"), (p(), Beh::Override, b"\xff\xfe", b"\xfe")]));
    v.push(mk(&[(Sc::All, Beh::Default, b"A", b""), (Sc::Build, Beh::Default, b"A", b""), (Sc::Launch, Beh::Default, b"A", b"")]));
    v.push(mk(&[(Sc::Launch, Beh::Override, b"p", b"var-named-like-process"), (p(), Beh::Override, b"X", b"1")]));
    // process entries that are byte-identical to launch entries (they are separate files all the same)
    v.push(mk(&[(Sc::Launch, Beh::Override, b"A", b"same"), (p(), Beh::Override, b"A", b"same"), (Sc::Launch, Beh::Default, b"B", b"d"), (p(), Beh::Default, b"B", b"d"), (q(), Beh::Override, b"A", b"same")]));
    // values longer than any buffer or argument-length limit (2^17 + 1 bytes), ending in a distinct byte
    let long: Vec<u8> = std::iter::repeat(b'v').take(1 << 17).chain(std::iter::once(b'!')).collect();
    v.push(mk(&[(Sc::All, Beh::Override, b"LONG", &long), (p(), Beh::Append, b"LONG", &long)]));
    v.push(mk(&[(Sc::All, Beh::Override, b"A", b"1"), (Sc::Build, Beh::Override, b"A", b"2"), (Sc::Launch, Beh::Override, b"A", b"3"), (p(), Beh::Override, b"A", b"4"), (q(), Beh::Override, b"A", b"5")]));
    v
}

// ---------- read side ----------

/// file names are written as &str; U+E000 stands for the byte 0xFF (a name that is not valid UTF-8)
fn raw(name: &str) -> Vec<u8> {
    let mut out = Vec::new();
    for c in name.chars() {
        if c == '\u{e000}' {
            out.push(0xff);
        } else {
            out.extend_from_slice(c.to_string().as_bytes());
        }
    }
    out
}

/// reference reader A.4 for one directory listing
fn ref_read(files: &[(String, Vec<u8>)], scope: &Sc, abs: &mut AbsEnv) {
    for (fname, data) in files {
        let fb_owned = raw(fname);
        let fb = &fb_owned[..];
        // split at the last dot; a leading dot belongs to the name
        let dot = fb.iter().rposition(|c| *c == b'.').filter(|i| *i > 0);
        let (name, beh) = match dot {
            None => (fb.to_vec(), Some(Beh::Override)),
            Some(i) => (fb[..i].to_vec(), Beh::from_suffix(&fb[i + 1..])),
        };
        if let Some(b) = beh {
            abs.insert((scope.clone(), b, name), data.clone());
        }
    }
}

fn read_side(thorough: bool, rep: &mut Reporter) -> (u64, u64) {
    // the last two: a suffix that is not valid UTF-8 (unknown => ignored), a name that is not valid UTF-8 (override)
    let fnames = ["N", "N.append", "N.default", "N.delim", "N.override", "N.prepend", "N.unknown", "N.b.default", ".N", "N.APPEND", "N.\u{e000}bak", "N\u{e000}"];
    let k = if thorough { 3 } else { 2 };
    // all subsets of <= k file names
    let mut subsets: Vec<Vec<usize>> = vec![vec![]];
    for size in 1..=k {
        let mut idx: Vec<usize> = (0..size).collect();
        loop {
            subsets.push(idx.clone());
            let mut i = size;
            let mut done = true;
            while i > 0 {
                i -= 1;
                if idx[i] != i + fnames.len() - size {
                    idx[i] += 1;
                    for j in i + 1..size {
                        idx[j] = idx[j - 1] + 1;
                    }
                    done = false;
                    break;
                }
            }
            if done {
                break;
            }
        }
    }
    // "N" and "N.override" both define (override, N): which one wins is unspecified => not enumerated
    subsets.retain(|s| !(s.contains(&0) && s.contains(&4)));
    let locations = [Sc::All, Sc::Build, Sc::Launch, Sc::Process("p".into())];
    // cases: one location populated with a subset; plus pairs (all-location subset, other-location subset) for size<=1 subsets
    let mut cases: Vec<Vec<(Sc, Vec<usize>)>> = Vec::new();
    for loc in &locations {
        for s in &subsets {
            cases.push(vec![(loc.clone(), s.clone())]);
        }
    }
    let small: Vec<&Vec<usize>> = subsets.iter().filter(|s| s.len() == 1).collect();
    for l1 in 0..locations.len() {
        for l2 in l1 + 1..locations.len() {
            for s1 in &small {
                for s2 in &small {
                    cases.push(vec![(locations[l1].clone(), (*s1).clone()), (locations[l2].clone(), (*s2).clone())]);
                }
            }
        }
    }
    // every case twice: env files as regular files, and the first file of every directory as a
    // symbolic link to a file stored elsewhere (a value shared between directories)
    let cases: Vec<(bool, Vec<(Sc, Vec<usize>)>)> = cases.iter().cloned().map(|c| (false, c)).chain(cases.iter().filter(|c| c.iter().all(|(_, s)| s.len() <= 1)).cloned().map(|c| (true, c))).collect();
    let results: Vec<Option<(String, String, serde_json::Value)>> = cases
        .par_iter()
        .map(|(linked, case)| {
            let linked = *linked;
            let sc = Scratch::new("c03r");
            let dir = sc.path.join("layer");
            std::fs::create_dir(&dir).unwrap();
            let mut abs = AbsEnv::new();
            let mut desc = Vec::new();
            for (loc, subset) in case {
                let d = dir.join(loc.dir());
                std::fs::create_dir_all(&d).unwrap();
                let mut files = Vec::new();
                for i in subset {
                    let content = format!("{}:{}", loc.dir(), fnames[*i]).into_bytes();
                    let fpath = d.join(<std::ffi::OsStr as std::os::unix::ffi::OsStrExt>::from_bytes(&raw(fnames[*i])));
                    if linked {
                        let store = sc.path.join("values");
                        std::fs::create_dir_all(&store).unwrap();
                        let target = store.join(format!("v{}-{}", desc.len(), i));
                        std::fs::write(&target, &content).unwrap();
                        std::os::unix::fs::symlink(&target, &fpath).unwrap();
                    } else {
                        std::fs::write(&fpath, &content).unwrap();
                    }
                    files.push((fnames[*i].to_string(), content));
                    desc.push(format!("{}/{}", loc.dir(), fnames[*i]));
                }
                ref_read(&files, loc, &mut abs);
            }
            let replay = json!({"kind": "read", "files": desc, "linked": linked});
            if linked {
                desc.push("(each a symlink to a file elsewhere)".to_string());
            }
            let p = if case.iter().any(|(l, _)| matches!(l, Sc::Process(_))) { "-process-dir" } else { "" };
            match LayerEnv::read_from_layer_dir(&dir) {
                Err(e) => Some((format!("read-failed{p}"), format!("reading a layer with env files {desc:?} failed: {e}"), replay)),
                Ok(read) => {
                    // names N, N.b, .N
                    let mut probe = abs.clone();
                    for n in [b"N".to_vec(), b"N.b".to_vec(), b".N".to_vec(), b"N\xff".to_vec()] {
                        probe.entry((Sc::Process("none".into()), Beh::Delim, n)).or_insert_with(Vec::new);
                    }
                    // use `probe` only to generate start envs covering all candidate names
                    for q in query_scopes() {
                        for st in start_envs(&probe) {
                            let got = plain_of(&read.apply(q.real(), &real_plain(&st)));
                            let want = ref_apply(&abs, &q, &st);
                            if got != want {
                                return Some((format!("read-differs-from-reference{p}"), format!("layer with env files {desc:?}: applying for {q:?} to {} gives {} but the spec reading gives {}", fmt_plain(&st), fmt_plain(&got), fmt_plain(&want)), replay));
                            }
                        }
                    }
                    None
                }
            }
        })
        .collect();
    let n = cases.len() as u64;
    let mut nontrivial = 0;
    for c in &cases {
        if c.1.iter().any(|(_, s)| !s.is_empty()) {
            nontrivial += 1;
        }
    }
    for r in results.into_iter().flatten() {
        rep.violation(&r.0, r.1, r.2);
    }
    rep.sample(json!({"read_case": format!("{:?}", cases[cases.len() / 2])}));
    (n, nontrivial)
}

pub fn run(args: &Args) {
    let mut rep = Reporter::new("C03", "model_checking", args);
    if let Some(path) = &args.replay {
        replay(path, &mut rep);
        rep.finish();
    }
    let envs = Arc::new(entry_alphabet(args.thorough()));
    let m = M { envs: envs.clone() };
    let r = bfs_levels(&m, &BfsOpts { max_depth: 2, max_wall: std::time::Duration::from_secs(if args.thorough() { 1500 } else { 200 }), ..Default::default() });
    for cx in &r.violations {
        let (sig, what) = cx.state.bad.clone().unwrap();
        let hist: Vec<_> = cx.path.iter().map(|i| abs_json(&envs[*i])).collect();
        rep.violation(&sig, what, json!({"kind": "write-history", "envs": hist}));
    }
    let (rn, rnt) = read_side(args.thorough(), &mut rep);
    rep.cov("states", r.states);
    rep.cov("transitions", r.transitions);
    rep.cov("traces_validated_against_impl", r.transitions + rn);
    rep.cov("max_depth", r.max_depth as u64);
    rep.cov("per_level", json!(r.per_level));
    rep.cov("environments_in_alphabet", envs.len() as u64);
    rep.cov("read_side_directories", rn);
    rep.cov("evaluations", r.transitions + rn);
    rep.cov("distinct_nontrivial", r.transitions.saturating_sub(2 * envs.len() as u64) + rnt);
    rep.cov("rule", "write side: every ordered pair (old,new) of environments from the alphabet written successively by the real write_to_layer_dir into a directory with sentinel files (transitions of a depth-2 state graph; a correct writer reaches only |alphabet| distinct states); non-trivial = pairs with both environments non-empty. read side: every directory with <= k files from 10 file-name shapes in each of env/, env.build/, env.launch/, env.launch/p/ plus all pairs of single files in two locations, read by the real read_from_layer_dir and compared with the reference reader by applying for 6 scopes x start envs");
    rep.cov("bound", json!({"history_depth": 2, "alphabet": if args.thorough() {"5 scopes x 5 behaviours x 7 names (dots, leading dot, suffix-like, space, non-UTF-8, non-ASCII) x 4 values + 12 multi-scope envs"} else {"5 scopes x 5 behaviours x 4 names x 2 values + 12 multi-scope envs"}, "read_k": if args.thorough() {3} else {2}}));
    rep.cov("exhaustive", r.cap_hit.is_none());
    if let Some(c) = &r.cap_hit {
        rep.cov("cap_hit", c.clone());
    }
    rep.sample(json!({"write_history": r.deepest_path.iter().map(|i| fmt_abs(&envs[*i])).collect::<Vec<_>>()}));
    rep.sample(json!({"env": fmt_abs(&envs[envs.len() - 12])}));
    rep.assume("names are split at the LAST dot (round-trip reading of the property); the reference lifecycle splits at the first dot, so dotted names are a libcnb-only notion");
    rep.assume("sub-directories inside env/ and env.build/ are outside the enumerated read-side shapes (property is silent)");
    rep.finish();
}

fn abs_json(a: &AbsEnv) -> serde_json::Value {
    json!(a.iter().map(|((s, b, n), v)| json!({"scope": s, "beh": b, "name": n, "value": v})).collect::<Vec<_>>())
}
fn abs_from_json(v: &serde_json::Value) -> AbsEnv {
    let mut abs = AbsEnv::new();
    for e in v.as_array().cloned().unwrap_or_default() {
        let s: Sc = serde_json::from_value(e["scope"].clone()).unwrap();
        let b: Beh = serde_json::from_value(e["beh"].clone()).unwrap();
        let n: Vec<u8> = serde_json::from_value(e["name"].clone()).unwrap();
        let val: Vec<u8> = serde_json::from_value(e["value"].clone()).unwrap();
        abs.insert((s, b, n), val);
    }
    abs
}

fn replay(path: &str, rep: &mut Reporter) {
    let doc: serde_json::Value = serde_json::from_str(&std::fs::read_to_string(path).expect("replay file")).expect("json");
    let r = &doc["replay"];
    if r["kind"] == "write-history" {
        let envs: Vec<AbsEnv> = r["envs"].as_array().unwrap().iter().map(abs_from_json).collect();
        let m = M { envs: Arc::new(envs.clone()) };
        let mut st = m.init_states().remove(0);
        for i in 0..envs.len() {
            println!("write {}", fmt_abs(&envs[i]));
            st = m.next_state(&st, i).unwrap();
            println!("  directory now: {}", st.snap.to_json());
            if let Some((sig, what)) = &st.bad {
                println!("DIFFERENCE: {what}");
                rep.violation(sig, what.clone(), json!({}));
                return;
            }
        }
        println!("layout and round trip as specified");
    } else {
        let sc = Scratch::new("c03replay");
        let dir = sc.path.join("layer");
        for f in r["files"].as_array().unwrap() {
            let p = dir.join(f.as_str().unwrap());
            std::fs::create_dir_all(p.parent().unwrap()).unwrap();
            std::fs::write(&p, b"v").unwrap();
        }
        match LayerEnv::read_from_layer_dir(&dir) {
            Err(e) => {
                println!("DIFFERENCE: read_from_layer_dir failed: {e}");
                rep.violation("read-failed", format!("{e}"), json!({}));
            }
            Ok(env) => println!("read ok: {env:?} (compare by hand with the reference reading)"),
        }
    }
}
