//! C04 — `LayerEnv::apply` follows the CNB modification rules.
//! State graph of real `insert` sequences; the invariant (apply == reference for every query
//! scope x starting environment, input unmodified, insertion-order independence) is evaluated in
//! every state.
use libcnb::layer_env::LayerEnv;
use serde_json::json;
use stateright::{Model, Property};
use std::hash::{Hash, Hasher};
use vh::engine::{BfsOpts, bfs_levels, stateright_unique_states};
use vh::envref::*;
use vh::report::{Args, Reporter};
use vh::snapshot::lossy;

#[derive(Clone, Debug)]
pub struct St {
    pub abs: AbsEnv,
    /// real value built by the real inserts in *path* order
    pub env: LayerEnv,
    pub inserts: usize,
}
impl Hash for St {
    fn hash<H: Hasher>(&self, h: &mut H) {
        self.abs.hash(h);
    }
}
impl PartialEq for St {
    fn eq(&self, o: &Self) -> bool {
        self.abs == o.abs
    }
}

#[derive(Clone, Debug, PartialEq)]
pub struct Ins {
    scope: Sc,
    beh: Beh,
    name: &'static str,
    value: &'static [u8],
}

#[derive(Clone)]
pub struct M {
    depth: usize,
    stacks: bool,
    values: &'static [&'static [u8]],
}

fn scopes() -> Vec<Sc> {
    // the process type is called like one of the fixed scopes: process types and the scopes all /
    // build / launch are different name spaces
    vec![Sc::All, Sc::Build, Sc::Launch, Sc::Process("launch".into())]
}
fn query_scopes() -> Vec<Sc> {
    vec![
        Sc::All,
        Sc::Build,
        Sc::Launch,
        Sc::Process("launch".into()),
        Sc::Process("all".into()),
    ]
}
fn start_envs() -> Vec<PlainEnv> {
    let mk = |kv: &[(&str, &str)]| -> PlainEnv {
        kv.iter()
            .map(|(k, v)| (k.as_bytes().to_vec(), v.as_bytes().to_vec()))
            .collect()
    };
    vec![
        mk(&[]),
        mk(&[("X", "")]),
        mk(&[("X", "o")]),
        mk(&[("X", "o"), ("PATH", "p"), ("Z", "z")]),
    ]
}

/// The invariant; returns a description of the first disagreement.
pub fn check_state(s: &St) -> Option<(String, String)> {
    // insertion-order independence: the env built in path order equals the env built in
    // canonical order (LayerEnv: Eq)
    let canon = real_env(&s.abs);
    if canon != s.env {
        return Some((
            "insertion-order".into(),
            format!("LayerEnv built in path order differs from the one built in sorted order for {}", fmt_abs(&s.abs)),
        ));
    }
    for q in query_scopes() {
        for start in start_envs() {
            let start_real = real_plain(&start);
            let before = start_real.clone();
            let got = plain_of(&s.env.apply(q.real(), &start_real));
            if start_real != before {
                return Some(("input-modified".into(), "apply modified its input".into()));
            }
            let want = ref_apply(&s.abs, &q, &start);
            if got != want {
                return Some((
                    classify(&s.abs, &q, &got, &want),
                    format!(
                        "env {} applied for scope {:?} to {} gives {} but the CNB rules give {}",
                        fmt_abs(&s.abs),
                        q,
                        fmt_plain(&start),
                        fmt_plain(&got),
                        fmt_plain(&want)
                    ),
                ));
            }
            if start.is_empty() {
                let got2 = plain_of(&s.env.apply_to_empty(q.real()));
                if got2 != want {
                    return Some(("apply-to-empty".into(), format!("apply_to_empty({q:?}) differs from apply on the empty environment for {}", fmt_abs(&s.abs))));
                }
            }
        }
    }
    None
}

/// coarse, stable signature: which rule is involved
fn classify(abs: &AbsEnv, q: &Sc, got: &PlainEnv, want: &PlainEnv) -> String {
    // first differing variable
    let mut names: Vec<&Bytes> = got.keys().chain(want.keys()).collect();
    names.sort();
    names.dedup();
    for n in names {
        if got.get(n) != want.get(n) {
            let mut behs: Vec<String> = abs
                .keys()
                .filter(|(s, _, name)| name == n && (s == q || *s == Sc::All))
                .map(|(s, b, _)| format!("{}{}", if *s == Sc::All { "all." } else { "scope." }, b.suffix()))
                .collect();
            behs.sort();
            behs.dedup();
            if behs.is_empty() {
                return "foreign-scope-leak".into();
            }
            return format!("rule:{}", behs.join("+"));
        }
    }
    "other".into()
}

pub fn fmt_abs(a: &AbsEnv) -> String {
    let v: Vec<String> = a
        .iter()
        .map(|((s, b, n), v)| format!("{:?}/{}.{}={:?}", s, lossy(n), b.suffix(), lossy(v)))
        .collect();
    format!("{{{}}}", v.join(", "))
}
pub fn fmt_plain(p: &PlainEnv) -> String {
    let v: Vec<String> = p.iter().map(|(k, v)| format!("{}={:?}", lossy(k), lossy(v))).collect();
    format!("{{{}}}", v.join(", "))
}

impl Model for M {
    type State = St;
    type Action = Ins;
    fn init_states(&self) -> Vec<St> {
        let mut v = vec![St { abs: AbsEnv::new(), env: LayerEnv::new(), inserts: 0 }];
        if self.stacks {
            // complete per-name stacks: every subset of behaviours in `all` x every subset in one
            // specific scope, distinct values
            for spec in [Sc::Build, Sc::Launch, Sc::Process("launch".into())] {
                for m1 in 0u32..32 {
                    for m2 in 0u32..32 {
                        if m1 == 0 && m2 == 0 {
                            continue;
                        }
                        let mut abs = AbsEnv::new();
                        let mut env = LayerEnv::new();
                        // insert in *descending* order so that path order != canonical order
                        for (mask, sc, tag) in [(m2, spec.clone(), "s"), (m1, Sc::All, "a")] {
                            for (i, b) in BEHS.iter().enumerate().rev() {
                                if mask & (1 << i) != 0 {
                                    let val = if *b == Beh::Delim { format!("<{tag}>") } else { format!("{tag}{i}") };
                                    abs.insert((sc.clone(), *b, b"X".to_vec()), val.clone().into_bytes());
                                    env.insert(sc.real(), b.real(), "X", val);
                                }
                            }
                        }
                        v.push(St { abs, env, inserts: 0 });
                    }
                }
            }
        }
        v
    }
    fn actions(&self, _s: &St, out: &mut Vec<Ins>) {
        for scope in scopes() {
            for beh in BEHS {
                // the second name is one of the conventional path-list variables: the rules do not depend on the name
                for name in ["X", "PATH"] {
                    for value in self.values {
                        let value: &'static [u8] = value;
                        out.push(Ins { scope: scope.clone(), beh, name, value });
                    }
                }
            }
        }
    }
    fn next_state(&self, s: &St, a: Ins) -> Option<St> {
        let mut n = s.clone();
        n.env.insert(a.scope.real(), a.beh.real(), a.name, <std::ffi::OsStr as std::os::unix::ffi::OsStrExt>::from_bytes(a.value));
        n.abs.insert((a.scope, a.beh, a.name.as_bytes().to_vec()), a.value.to_vec());
        n.inserts += 1;
        Some(n)
    }
    fn within_boundary(&self, s: &St) -> bool {
        s.inserts <= self.depth
    }
    fn properties(&self) -> Vec<Property<Self>> {
        vec![Property::always("apply == CNB reference", |_, s| check_state(s).is_none())]
    }
}

pub fn run(args: &Args) {
    let mut rep = Reporter::new("C04", "model_checking", args);
    if let Some(path) = &args.replay {
        replay(path, &mut rep);
        rep.finish();
    }
    // the third value is not valid UTF-8: values are byte strings and must be carried unchanged
    const FULL: &[&[u8]] = &[b"", b"x ", b"\xffy"];
    const REDUCED: &[&[u8]] = &[b"", b"x "];
    let depth = 3;
    // phase 1: BFS over insert sequences from the empty environment
    let m = M { depth, stacks: false, values: FULL };
    let r = bfs_levels(&m, &BfsOpts { max_depth: depth, max_wall: std::time::Duration::from_secs(if args.thorough() { 1500 } else { 240 }), ..Default::default() });
    // phase 2: the complete behaviour stacks (+1 further insert)
    let m2 = M { depth: 1, stacks: true, values: FULL };
    let r2 = bfs_levels(&m2, &BfsOpts { max_depth: 1, ..Default::default() });

    // phase 3 (thorough): depth 4 over the value set {"", "x"} (80 inserts)
    let r3 = if args.thorough() {
        let m3 = M { depth: 4, stacks: false, values: REDUCED };
        Some(bfs_levels(&m3, &BfsOpts { max_depth: 4, max_wall: std::time::Duration::from_secs(1500), ..Default::default() }))
    } else {
        None
    };
    // phase 4: names outside the usual shapes, one and two entries each. Variable names are byte
    // strings for the layer environment (empty, with '=', ...), process names are arbitrary strings
    // (with '/', trailing '/', './'): entries take effect under exactly the name they were given
    let mut odd_evals = 0u64;
    {
        use vh::envref::{BEHS, plain_of, real_env, real_plain, ref_apply};
        let odd_vars: [&[u8]; 4] = [b"", b"=X", b"A=B", b"X"];
        let odd_procs = ["jobs/web", "web/", "./web", "/web", "web"];
        let mut envs: Vec<AbsEnv> = Vec::new();
        for b in BEHS {
            for v in odd_vars {
                envs.push([((Sc::All, b, v.to_vec()), b"v".to_vec())].into_iter().collect());
                envs.push([((Sc::Build, b, v.to_vec()), b"v".to_vec()), ((Sc::All, Beh::Default, v.to_vec()), b"d".to_vec())].into_iter().collect());
            }
            for p in odd_procs {
                envs.push([((Sc::Process(p.into()), b, b"X".to_vec()), b"v".to_vec())].into_iter().collect());
                envs.push([((Sc::Process(p.into()), b, b"X".to_vec()), b"v".to_vec()), ((Sc::Process("web".into()), Beh::Override, b"X".to_vec()), b"w".to_vec())].into_iter().collect());
            }
        }
        let mut queries = vec![Sc::All, Sc::Build, Sc::Launch];
        queries.extend(odd_procs.iter().map(|p| Sc::Process((*p).into())));
        let starts: Vec<PlainEnv> = vec![PlainEnv::new(), odd_vars.iter().map(|v| (v.to_vec(), b"o".to_vec())).collect()];
        for abs in &envs {
            let real = real_env(abs);
            for q in &queries {
                for st in &starts {
                    odd_evals += 1;
                    let got = plain_of(&real.apply(q.real(), &real_plain(st)));
                    let want = ref_apply(abs, q, st);
                    if got != want {
                        rep.violation(&format!("odd-names:{}", classify(abs, q, &got, &want)), format!("env {} applied for scope {q:?} to {} gives {} but the CNB rules give {}", fmt_abs(abs), fmt_plain(st), fmt_plain(&got), fmt_plain(&want)), json!({"env": abs_to_json(abs), "query": format!("{q:?}"), "start": "see text"}));
                    }
                }
            }
        }
    }
    rep.cov("odd_name_evaluations", odd_evals);
    let (r3s, r3t) = r3.as_ref().map(|r| (r.states, r.transitions)).unwrap_or((0, 0));
    let evals_per_state = (query_scopes().len() * start_envs().len()) as u64;
    rep.cov("states", r.states + r2.states + r3s);
    rep.cov("transitions", r.transitions + r2.transitions + r3t);
    rep.cov("traces_validated_against_impl", r.transitions + r2.transitions + r3t);
    if let Some(r3) = &r3 {
        rep.cov("depth4_reduced", json!({"states": r3.states, "transitions": r3.transitions, "per_level": r3.per_level, "cap_hit": r3.cap_hit}));
    }
    rep.cov("max_depth", r.max_depth as u64);
    rep.cov("per_level", json!({"insert_bfs": r.per_level, "stacks": r2.per_level}));
    rep.cov("evaluations", (r.states + r2.states + r3s) * evals_per_state);
    // non-trivial = states with at least one entry (every one of them has >= 1 query whose result differs from the start env or tests non-interference)
    rep.cov("distinct_nontrivial", r.states + r2.states + r3s - 2);
    rep.cov("rule", "states = distinct abstract maps (scope,behaviour,name)->value reached by real LayerEnv::insert sequences (BFS from empty to the depth bound; plus all 3x(2^5x2^5-1) behaviour stacks on one name and one further insert); each state is evaluated for 5 query scopes x 4 starting environments against the reference rules; plus one- and two-entry environments over variable names {empty, =X, A=B} and process names {jobs/web, web/, ./web, /web} x 5 behaviours x 8 query scopes x 2 starting environments; non-trivial = non-empty environment");
    rep.cov("bound", json!({"insert_depth": depth, "alphabet": "4 scopes x 5 behaviours x names {X,PATH} x values {'','x ' (ends in a space),<0xff>y} = 120 inserts", "stacks": "3 x 1023 init states, depth 1", "query": "5 scopes (process types named `launch` and, unknown, `all`) x 4 start envs (unset, empty, set, set+others)"}));
    let capped = r.cap_hit.clone().or(r2.cap_hit.clone()).or(r3.as_ref().and_then(|x| x.cap_hit.clone()));
    rep.cov("exhaustive", capped.is_none());
    if let Some(c) = &capped {
        rep.cov("cap_hit", c.clone());
    }
    rep.sample(json!({"deepest_insert_path": r.deepest_path.iter().map(|a| format!("{a:?}")).collect::<Vec<_>>()}));
    rep.sample(json!({"stack_state": fmt_abs(&m2.init_states()[700].abs)}));
    rep.sample(json!({"stack_path": r2.deepest_path.iter().map(|a| format!("{a:?}")).collect::<Vec<_>>()}));

    let empty = Vec::new();
    for (which, res) in [("insert_bfs", &r.violations), ("stacks", &r2.violations), ("depth4_reduced", r3.as_ref().map(|x| &x.violations).unwrap_or(&empty))] {
        for cx in res.iter() {
            let (sig, what) = check_state(&cx.state).unwrap_or(("unknown".into(), "?".into()));
            rep.violation(
                &sig,
                what,
                json!({"phase": which, "entries": abs_to_json(&cx.state.abs), "path": cx.path.iter().map(|a| format!("{a:?}")).collect::<Vec<_>>()}),
            );
        }
    }
    // engine self-test: stateright's own BFS must see the same number of unique states
    if rep.n_violations() == 0 && capped.is_none() {
        let d = 2usize;
        let mine = bfs_levels(&M { depth: d, stacks: false, values: FULL }, &BfsOpts { max_depth: d, ..Default::default() }).states;
        let theirs = stateright_unique_states(M { depth: d, stacks: false, values: FULL }, None) as u64;
        rep.cov("engine_crosscheck", json!({"depth": d, "bfs_levels_states": mine, "stateright_spawn_bfs_states": theirs}));
        if mine != theirs {
            rep.machinery(format!("engine self-test failed: bfs_levels={mine} stateright={theirs}"));
        }
    }
    rep.assume("reference order of several behaviours on one name in one delta = lexical order of the NAME.<suffix> files (append, default, override, prepend), as the reference lifecycle applies them");
    rep.finish();
}

fn abs_to_json(a: &AbsEnv) -> serde_json::Value {
    json!(a.iter().map(|((s, b, n), v)| json!({"scope": s, "beh": b, "name": n, "value": v})).collect::<Vec<_>>())
}

fn replay(path: &str, rep: &mut Reporter) {
    let doc: serde_json::Value = serde_json::from_str(&std::fs::read_to_string(path).expect("replay file")).expect("json");
    let entries = doc["replay"]["entries"].as_array().cloned().unwrap_or_default();
    let mut abs = AbsEnv::new();
    let mut env = LayerEnv::new();
    for e in entries.iter().rev() {
        let s: Sc = serde_json::from_value(e["scope"].clone()).unwrap();
        let b: Beh = serde_json::from_value(e["beh"].clone()).unwrap();
        let n: Vec<u8> = serde_json::from_value(e["name"].clone()).unwrap();
        let v: Vec<u8> = serde_json::from_value(e["value"].clone()).unwrap();
        env.insert(s.real(), b.real(), os(&n), os(&v));
        abs.insert((s, b, n), v);
    }
    let st = St { abs, env, inserts: 0 };
    println!("replaying LayerEnv {}", fmt_abs(&st.abs));
    match check_state(&st) {
        Some((sig, what)) => {
            println!("DIFFERENCE: {what}");
            rep.violation(&sig, what, json!({}));
        }
        None => println!("implementation and reference agree on all queries"),
    }
}
