//! C01 — struct-API layer state machine over build histories.
//! Explicit-state BFS: every transition executes the real `BuildContext::{cached_layer,
//! uncached_layer}` / `LayerRef::write_*` on a freshly materialised directory; the reference model
//! (DESIGN A.1) predicts the reported state, the consulted callbacks and the resulting abstract
//! layer, and is compared after every transition.
use libcnb::build::BuildContext;
use libcnb::data::layer::LayerName;
use libcnb::data::sbom::SbomFormat;
use libcnb::generic::GenericMetadata;
use libcnb::layer::{CachedLayerDefinition, EmptyLayerCause, InvalidMetadataAction, LayerRef, LayerState, RestoredLayerAction, UncachedLayerDefinition};
use libcnb::sbom::Sbom;
use serde::de::DeserializeOwned;
use serde::{Deserialize, Serialize};
use serde_json::json;
use stateright::{Model, Property};
use std::cell::RefCell;
use std::collections::{BTreeMap, BTreeSet};
use std::hash::{Hash, Hasher};
use std::path::{Path, PathBuf};
use std::sync::Arc;
use vh::engine::{BfsOpts, bfs_levels};
use vh::envref::*;
use vh::layermodel::*;
use vh::report::{Args, Reporter};
use vh::snapshot::{Node, Scratch, Snapshot};

pub const NAMES: [&str; 2] = ["a.b", "a"];
const C_KEEP: u32 = 11;
const C_DEL: u32 = 22;
const C_INV: u32 = 33;
const C_REP: u32 = 44;

#[derive(Clone, Copy, Debug, PartialEq, Eq, Hash, Serialize, Deserialize)]
pub enum RDec {
    Keep,
    Delete,
    Err,
}
#[derive(Clone, Copy, Debug, PartialEq, Eq, Hash, Serialize, Deserialize)]
pub enum IDec {
    Delete,
    Replace,
    Err,
}
#[derive(Clone, Copy, Debug, PartialEq, Eq, Hash, Serialize, Deserialize)]
pub enum MKind {
    Generic,
    V1,
}

#[derive(Clone, Debug, PartialEq, Eq, Hash, Serialize, Deserialize)]
pub enum Op {
    Cached { n: usize, build: bool, launch: bool, m: MKind, shape: u8, restored: Option<RDec>, invalid: Option<IDec>, restored2: Option<RDec> },
    Uncached { n: usize, build: bool, launch: bool },
    WMeta { n: usize, k: u8 },
    WEnv { n: usize, k: u8 },
    WSbom { n: usize, k: u8 },
    WExec { n: usize, k: u8 },
    Put { n: usize },
    Restore,
    /// restore in which a launch-only layer's SBOM files come back with its metadata file
    RestoreSboms,
}

#[derive(Serialize, Deserialize, Clone, Debug, PartialEq)]
pub struct V1 {
    version: String,
}

pub trait MetaProbe: Serialize + DeserializeOwned {
    fn replacement() -> Self;
    fn as_value(&self) -> Option<toml::Value>;
}
impl MetaProbe for V1 {
    fn replacement() -> Self {
        V1 { version: "9".into() }
    }
    fn as_value(&self) -> Option<toml::Value> {
        toml::Value::try_from(self).ok()
    }
}
impl MetaProbe for GenericMetadata {
    fn replacement() -> Self {
        None
    }
    fn as_value(&self) -> Option<toml::Value> {
        self.as_ref().map(|t| toml::Value::Table(t.clone()))
    }
}

pub fn meta_value(k: u8) -> toml::Value {
    match k {
        0 => toml::toml! { version = "1" }.into(),
        1 => toml::toml! { legacy = 1 }.into(),
        // parses as V1 but carries a key V1 does not declare: keeping the layer must not lose it
        _ => toml::toml! { version = "1" checksum = "abc" }.into(),
    }
}
fn replaced_value() -> toml::Value {
    toml::toml! { version = "9" }.into()
}

pub fn env_value(k: u8) -> AbsEnv {
    let mk = |items: &[(Sc, Beh, &str, &str)]| -> AbsEnv { items.iter().map(|(s, b, n, v)| ((s.clone(), *b, n.as_bytes().to_vec()), v.as_bytes().to_vec())).collect() };
    let p = || Sc::Process("web".into());
    match k {
        0 => AbsEnv::new(),
        1 => mk(&[(Sc::All, Beh::Override, "A", "all"), (Sc::Build, Beh::Append, "A", "build"), (Sc::Launch, Beh::Prepend, "A", "launch"), (p(), Beh::Default, "A", "proc"), (Sc::Process("web.worker".into()), Beh::Override, "W", "w")]),
        2 => mk(&[(Sc::Build, Beh::Append, "PATH", "/x"), (Sc::Build, Beh::Delim, "PATH", ":"), (Sc::Launch, Beh::Override, "B.c", "l\n")]),
        _ => mk(&[(p(), Beh::Override, "ONLY_PROC", "1")]),
    }
}

pub fn sbom_value(k: u8) -> Vec<(SbomFormat, &'static str, Vec<u8>)> {
    match k {
        0 => vec![],
        1 => vec![(SbomFormat::CycloneDxJson, "cdx.json", b"{\"cdx\":1}".to_vec())],
        _ => vec![(SbomFormat::SpdxJson, "spdx.json", b"{\"spdx\":2}".to_vec()), (SbomFormat::SyftJson, "syft.json", b"{\"syft\":3}".to_vec())],
    }
}

/// exec.d program sets: name -> source file name under <root>/src (k=3 has a missing source)
pub fn execd_value(k: u8) -> Vec<(&'static str, &'static str)> {
    match k {
        0 => vec![],
        1 => vec![("p1", "p1")],
        2 => vec![("p1", "p2"), ("p2", "p1")],
        // a single program: with several, HashMap order would decide how much is copied before the
        // failure, which the explorer cannot own in-process
        _ => vec![("gone", "missing")],
    }
}
pub fn src_content(file: &str) -> Vec<u8> {
    format!("#!/bin/sh\necho {file}\n").into_bytes()
}

#[derive(Clone, Debug, PartialEq, Eq, Hash, Serialize, Deserialize)]
pub enum Obs {
    Restored(Option<u32>),
    EmptyNew,
    EmptyInvalid(Option<u32>),
    EmptyRestored(Option<u32>),
}

#[derive(Debug, Clone, PartialEq)]
pub enum Out {
    Ok(Option<Obs>),
    BpErr(String),
    OtherErr(String),
}

#[derive(Debug, Clone, PartialEq)]
pub enum Consult {
    Restored { md: Option<toml::Value>, path_ok: bool },
    Invalid { md: Option<toml::Value> },
    Unexpected(String),
}

pub enum RefBox {
    C(LayerRef<VB, u32, u32>),
    U(LayerRef<VB, (), ()>),
}

macro_rules! with_ref {
    ($rb:expr, $r:ident => $e:expr) => {
        match $rb {
            RefBox::C($r) => $e,
            RefBox::U($r) => $e,
        }
    };
}

fn obs_c(s: &LayerState<u32, u32>) -> Obs {
    match s {
        LayerState::Restored { cause } => Obs::Restored(Some(*cause)),
        LayerState::Empty { cause: EmptyLayerCause::NewlyCreated } => Obs::EmptyNew,
        LayerState::Empty { cause: EmptyLayerCause::InvalidMetadataAction { cause } } => Obs::EmptyInvalid(Some(*cause)),
        LayerState::Empty { cause: EmptyLayerCause::RestoredLayerAction { cause } } => Obs::EmptyRestored(Some(*cause)),
    }
}
fn obs_u(s: &LayerState<(), ()>) -> Obs {
    match s {
        LayerState::Restored { .. } => Obs::Restored(None),
        LayerState::Empty { cause: EmptyLayerCause::NewlyCreated } => Obs::EmptyNew,
        LayerState::Empty { cause: EmptyLayerCause::InvalidMetadataAction { .. } } => Obs::EmptyInvalid(None),
        LayerState::Empty { cause: EmptyLayerCause::RestoredLayerAction { .. } } => Obs::EmptyRestored(None),
    }
}

fn lname(n: usize) -> LayerName {
    NAMES[n].parse().unwrap()
}

struct Decisions {
    restored: Option<RDec>,
    invalid: Option<IDec>,
    restored2: Option<RDec>,
}

/// runs one cached_layer request with metadata type M and the given IntoAction shape
fn do_cached<M: MetaProbe + 'static>(ctx: &BuildContext<VB>, n: usize, build: bool, launch: bool, shape: u8, d: &Decisions, log: &RefCell<Vec<Consult>>) -> (Out, Option<RefBox>) {
    let replaced = RefCell::new(false);
    let expect_path = ctx.layers_dir.join(NAMES[n]);
    let decide_r = |md: &M, path: &Path| -> RDec {
        let dec = if *replaced.borrow() { d.restored2 } else { d.restored };
        log.borrow_mut().push(Consult::Restored { md: md.as_value(), path_ok: path == expect_path });
        dec.unwrap_or_else(|| {
            log.borrow_mut().push(Consult::Unexpected("restored_layer_action consulted without a scheduled decision".into()));
            RDec::Keep
        })
    };
    let decide_i = |md: &GenericMetadata| -> IDec {
        log.borrow_mut().push(Consult::Invalid { md: md.as_value() });
        let dec = if *replaced.borrow() { None } else { d.invalid };
        let dec = dec.unwrap_or_else(|| {
            log.borrow_mut().push(Consult::Unexpected("invalid_metadata_action consulted without a scheduled decision".into()));
            IDec::Delete
        });
        if dec == IDec::Replace {
            *replaced.borrow_mut() = true;
        }
        dec
    };
    let name = lname(n);
    fn conv<C>(r: libcnb::Result<LayerRef<VB, C, C>, VErr>, f: impl Fn(&LayerState<C, C>) -> Obs, wrap: impl Fn(LayerRef<VB, C, C>) -> RefBox) -> (Out, Option<RefBox>) {
        match r {
            Ok(lr) => (Out::Ok(Some(f(&lr.state))), Some(wrap(lr))),
            Err(libcnb::Error::BuildpackError(e)) => (Out::BpErr(e.0), None),
            Err(e) => (Out::OtherErr(format!("{e:?}")), None),
        }
    }
    let r_act = |d: RDec| if d == RDec::Keep { (RestoredLayerAction::KeepLayer, C_KEEP) } else { (RestoredLayerAction::DeleteLayer, C_DEL) };
    let i_act = |d: IDec| if d == IDec::Replace { (InvalidMetadataAction::ReplaceMetadata(M::replacement()), C_REP) } else { (InvalidMetadataAction::DeleteLayer, C_INV) };
    match shape {
        // Result<(action, cause), E>
        0 => conv::<u32>(
            ctx.cached_layer(
                &name,
                CachedLayerDefinition {
                    build,
                    launch,
                    invalid_metadata_action: &|md| match decide_i(md) {
                        IDec::Err => Err(VErr("invalid-err".into())),
                        x => Ok(i_act(x)),
                    },
                    restored_layer_action: &|md: &M, p| match decide_r(md, p) {
                        RDec::Err => Err(VErr("restored-err".into())),
                        x => Ok(r_act(x)),
                    },
                },
            ),
            obs_c,
            RefBox::C,
        ),
        // (action, cause)
        1 => conv::<u32>(
            ctx.cached_layer(&name, CachedLayerDefinition { build, launch, invalid_metadata_action: &|md| i_act(decide_i(md)), restored_layer_action: &|md: &M, p| r_act(decide_r(md, p)) }),
            obs_c,
            RefBox::C,
        ),
        // bare action
        2 => conv::<()>(
            ctx.cached_layer(&name, CachedLayerDefinition { build, launch, invalid_metadata_action: &|md| i_act(decide_i(md)).0, restored_layer_action: &|md: &M, p| r_act(decide_r(md, p)).0 }),
            obs_u,
            RefBox::U,
        ),
        // Result<action, E>
        _ => conv::<()>(
            ctx.cached_layer(
                &name,
                CachedLayerDefinition {
                    build,
                    launch,
                    invalid_metadata_action: &|md| match decide_i(md) {
                        IDec::Err => Err(VErr("invalid-err".into())),
                        x => Ok(i_act(x).0),
                    },
                    restored_layer_action: &|md: &M, p| match decide_r(md, p) {
                        RDec::Err => Err(VErr("restored-err".into())),
                        x => Ok(r_act(x).0),
                    },
                },
            ),
            obs_u,
            RefBox::U,
        ),
    }
}

pub struct World {
    pub sc: Scratch,
    pub ctx: BuildContext<VB>,
    pub refs: BTreeMap<usize, RefBox>,
}

impl World {
    pub fn new(start: &Snapshot) -> World {
        let sc = Scratch::new("c01");
        let ctx = mk_context(&sc.path);
        start.materialise(&ctx.layers_dir).expect("materialise");
        let src = sc.path.join("src");
        std::fs::create_dir_all(&src).unwrap();
        for f in ["p1", "p2"] {
            std::fs::write(src.join(f), src_content(f)).unwrap();
            use std::os::unix::fs::PermissionsExt;
            std::fs::set_permissions(src.join(f), std::fs::Permissions::from_mode(0o755)).unwrap();
        }
        World { sc, ctx, refs: BTreeMap::new() }
    }
    pub fn snap(&self) -> Snapshot {
        Snapshot::take(&self.ctx.layers_dir).expect("snapshot")
    }
    fn src(&self, f: &str) -> PathBuf {
        self.sc.path.join("src").join(f)
    }
    /// execute one op with the real code; returns outcome and callback log
    pub fn exec(&mut self, op: &Op) -> (Out, Vec<Consult>) {
        let log = RefCell::new(Vec::new());
        let out = match op {
            Op::Cached { n, build, launch, m, shape, restored, invalid, restored2 } => {
                let d = Decisions { restored: *restored, invalid: *invalid, restored2: *restored2 };
                let (out, r) = match m {
                    MKind::Generic => do_cached::<GenericMetadata>(&self.ctx, *n, *build, *launch, *shape, &d, &log),
                    MKind::V1 => do_cached::<V1>(&self.ctx, *n, *build, *launch, *shape, &d, &log),
                };
                match r {
                    Some(r) => {
                        self.refs.insert(*n, r);
                    }
                    None => {
                        self.refs.remove(n);
                    }
                }
                out
            }
            Op::Uncached { n, build, launch } => match self.ctx.uncached_layer(lname(*n), UncachedLayerDefinition { build: *build, launch: *launch }) {
                Ok(lr) => {
                    let o = obs_u(&lr.state);
                    self.refs.insert(*n, RefBox::U(lr));
                    Out::Ok(Some(o))
                }
                Err(libcnb::Error::BuildpackError(e)) => {
                    self.refs.remove(n);
                    Out::BpErr(e.0)
                }
                Err(e) => {
                    self.refs.remove(n);
                    Out::OtherErr(format!("{e:?}"))
                }
            },
            Op::WMeta { n, k: 3 } => {
                // a value TOML cannot represent (integer above i64::MAX): the write must fail and leave the file alone
                #[derive(serde::Serialize)]
                struct Unrepresentable {
                    version: String,
                    content_hash: u64,
                }
                let v = Unrepresentable { version: "1".into(), content_hash: u64::MAX };
                conv_unit(with_ref!(self.refs.get(n).expect("live ref"), r => r.write_metadata(v)))
            }
            Op::WMeta { n, k: 4 } => {
                // "no metadata": the file must not keep the metadata table of an earlier write or build
                let v: Option<toml::Table> = None;
                conv_unit(with_ref!(self.refs.get(n).expect("live ref"), r => r.write_metadata(v)))
            }
            Op::WMeta { n, k } => {
                let v = meta_value(*k);
                conv_unit(with_ref!(self.refs.get(n).expect("live ref"), r => r.write_metadata(v)))
            }
            Op::WEnv { n, k } => {
                let e = real_env(&env_value(*k));
                conv_unit(with_ref!(self.refs.get(n).expect("live ref"), r => r.write_env(&e)))
            }
            Op::WSbom { n, k } => {
                let s: Vec<Sbom> = sbom_value(*k).into_iter().map(|(f, _, d)| Sbom::from_bytes(f, d)).collect();
                conv_unit(with_ref!(self.refs.get(n).expect("live ref"), r => r.write_sboms(&s)))
            }
            Op::WExec { n, k } => {
                let progs: Vec<(String, PathBuf)> = execd_value(*k).into_iter().map(|(name, f)| (name.to_string(), self.src(f))).collect();
                conv_unit(with_ref!(self.refs.get(n).expect("live ref"), r => r.write_exec_d_programs(progs)))
            }
            Op::Put { n } => {
                let p = with_ref!(self.refs.get(n).expect("live ref"), r => r.path());
                match std::fs::write(p.join("data"), b"D") {
                    Ok(()) => Out::Ok(None),
                    Err(e) => Out::OtherErr(format!("harness put_file: {e}")),
                }
            }
            Op::Restore | Op::RestoreSboms => {
                let s = if *op == Op::Restore { restore(&self.snap()) } else { restore_sboms(&self.snap()) };
                vh::snapshot::force_remove(&self.ctx.layers_dir);
                std::fs::create_dir(&self.ctx.layers_dir).unwrap();
                s.materialise(&self.ctx.layers_dir).unwrap();
                self.refs.clear();
                Out::Ok(None)
            }
        };
        (out, log.into_inner())
    }
}

fn conv_unit(r: libcnb::Result<(), VErr>) -> Out {
    match r {
        Ok(()) => Out::Ok(None),
        Err(libcnb::Error::BuildpackError(e)) => Out::BpErr(e.0),
        Err(e) => Out::OtherErr(format!("{e:?}")),
    }
}

// ---------------- reference model (A.1) ----------------

pub fn parses(md: &Option<toml::Value>, m: MKind) -> bool {
    match m {
        MKind::Generic => true,
        MKind::V1 => md.as_ref().and_then(|v| v.get("version")).map(|v| v.is_str()).unwrap_or(false),
    }
}

/// "present" after the spec normalisation: a toml without directory counts as absent
fn present(pre: &LayerAbs) -> bool {
    pre.dir
}

#[derive(Debug, Clone, PartialEq)]
pub enum PredLayer {
    /// same as before the request; types refreshed; metadata possibly replaced
    Kept { types: (bool, bool, bool), metadata: Option<toml::Value> },
    Fresh { types: (bool, bool, bool) },
    /// failed in a buildpack callback: the statement is silent on the layer itself
    Unspecified,
}

pub struct Pred {
    pub consults: Vec<Consult>,
    pub out: Out,
    pub layer: PredLayer,
}

pub fn predict_cached(pre: &LayerAbs, build: bool, launch: bool, m: MKind, shape: u8, restored: Option<RDec>, invalid: Option<IDec>, restored2: Option<RDec>) -> Pred {
    let types = (launch, build, true);
    let cause = |c: u32| if shape < 2 { Some(c) } else { None };
    if !present(pre) {
        return Pred { consults: vec![], out: Out::Ok(Some(Obs::EmptyNew)), layer: PredLayer::Fresh { types } };
    }
    let mut md = pre.metadata();
    let mut consults = Vec::new();
    let mut replaced = false;
    loop {
        if parses(&md, m) {
            // what the callback sees: for V1 only the declared fields
            let seen = match m {
                MKind::Generic => md.clone(),
                MKind::V1 => md.as_ref().and_then(|v| v.get("version")).map(|ver| {
                    let mut t = toml::Table::new();
                    t.insert("version".into(), ver.clone());
                    toml::Value::Table(t)
                }),
            };
            consults.push(Consult::Restored { md: seen, path_ok: true });
            let dec = if replaced { restored2 } else { restored };
            return match dec.expect("decision scheduled") {
                RDec::Keep => Pred { consults, out: Out::Ok(Some(Obs::Restored(cause(C_KEEP)))), layer: PredLayer::Kept { types, metadata: md } },
                RDec::Delete => Pred { consults, out: Out::Ok(Some(Obs::EmptyRestored(cause(C_DEL)))), layer: PredLayer::Fresh { types } },
                RDec::Err => Pred { consults, out: Out::BpErr("restored-err".into()), layer: PredLayer::Unspecified },
            };
        }
        consults.push(Consult::Invalid { md: md.clone() });
        match invalid.expect("decision scheduled") {
            IDec::Delete => return Pred { consults, out: Out::Ok(Some(Obs::EmptyInvalid(cause(C_INV)))), layer: PredLayer::Fresh { types } },
            IDec::Err => return Pred { consults, out: Out::BpErr("invalid-err".into()), layer: PredLayer::Unspecified },
            IDec::Replace => {
                md = Some(replaced_value());
                replaced = true;
            }
        }
    }
}

/// compare the layer on disk with the prediction; returns (signature, text)
fn check_layer(after: &LayerAbs, pre: &LayerAbs, pred: &PredLayer) -> Option<(String, String)> {
    match pred {
        PredLayer::Unspecified => None,
        PredLayer::Fresh { types } => {
            if !after.dir {
                return Some(("empty-layer-dir-missing".into(), "layer reported empty but its directory does not exist".into()));
            }
            if after.types() != Some(*types) {
                return Some(("wrong-types".into(), format!("content metadata declares types (launch,build,cache)={:?}, requested {:?}", after.types(), types)));
            }
            if after.metadata().map(|m| m.as_table().map(|t| !t.is_empty()).unwrap_or(true)).unwrap_or(false) {
                return Some(("empty-layer-has-metadata".into(), format!("layer reported empty but metadata is {:?}", after.metadata())));
            }
            if !after.files.0.is_empty() {
                return Some(("empty-layer-has-files".into(), format!("layer reported empty but holds {:?}", after.files.to_json())));
            }
            if !after.env_files.is_empty() {
                return Some(("empty-layer-has-env".into(), "layer reported empty but has environment files".into()));
            }
            if !after.execd.is_empty() {
                return Some(("empty-layer-has-execd".into(), "layer reported empty but has exec.d programs".into()));
            }
            if !after.sboms.is_empty() {
                return Some(("empty-layer-has-sbom".into(), format!("layer reported empty but SBOM files {:?} of an earlier build are still present", after.sboms.keys().collect::<Vec<_>>())));
            }
            extra_toml(after)
        }
        PredLayer::Kept { types, metadata } => {
            if !after.dir {
                return Some(("restored-layer-dir-missing".into(), "layer reported restored but its directory does not exist".into()));
            }
            if after.types() != Some(*types) {
                return Some(("wrong-types".into(), format!("content metadata declares types (launch,build,cache)={:?}, requested {:?}", after.types(), types)));
            }
            if norm_md(&after.metadata()) != norm_md(metadata) {
                return Some(("restored-metadata-changed".into(), format!("restored layer metadata is {:?}, expected {:?}", after.metadata(), metadata)));
            }
            if after.files != pre.files {
                return Some(("restored-files-changed".into(), format!("restored layer files changed: {:?}", pre.files.diff(&after.files, 4))));
            }
            if after.env_files != pre.env_files {
                return Some(("restored-env-changed".into(), "restored layer lost or changed environment files".into()));
            }
            if after.execd != pre.execd {
                return Some(("restored-execd-changed".into(), "restored layer lost or changed exec.d programs".into()));
            }
            if after.sboms != pre.sboms {
                return Some(("restored-sbom-changed".into(), "restored layer lost or changed SBOM files".into()));
            }
            extra_toml(after)
        }
    }
}

fn extra_toml(after: &LayerAbs) -> Option<(String, String)> {
    match &after.toml {
        Some(Ok(t)) if !t.extra_keys.is_empty() => Some(("toml-extra-keys".into(), format!("content metadata has undefined keys {:?}", t.extra_keys))),
        Some(Err(e)) => Some(("toml-unparsable".into(), format!("content metadata is not TOML: {e}"))),
        _ => None,
    }
}

/// an absent metadata table and an empty one are the same document
fn norm_md(m: &Option<toml::Value>) -> Option<toml::Value> {
    match m {
        Some(toml::Value::Table(t)) if t.is_empty() => None,
        other => other.clone(),
    }
}

// ---------------- the state graph ----------------

#[derive(Clone, Debug)]
pub struct Rep {
    pub start: Snapshot,
    pub ops: Vec<Op>,
}

#[derive(Clone, Debug)]
pub struct St {
    pub snap: Snapshot,
    pub live: BTreeSet<usize>,
    pub rep: Arc<Rep>,
    pub bad: Option<(String, String)>,
    pub nondet: bool,
}
impl Hash for St {
    fn hash<H: Hasher>(&self, h: &mut H) {
        self.snap.hash(h);
        self.live.hash(h);
        self.bad.is_some().hash(h);
    }
}
impl PartialEq for St {
    fn eq(&self, o: &Self) -> bool {
        self.snap == o.snap && self.live == o.live && self.bad.is_some() == o.bad.is_some()
    }
}

pub struct M {
    pub inits: Vec<St>,
    pub all_shapes: bool,
}

fn shape_for(all: bool, n: usize, build: bool, m: MKind, needs_err: bool) -> Vec<u8> {
    if all {
        return if needs_err { vec![0, 3] } else { vec![0, 1, 2, 3] };
    }
    let s = ((n + 2 * build as usize + (m == MKind::V1) as usize) % 4) as u8;
    if needs_err && (s == 1 || s == 2) { vec![if s == 1 { 0 } else { 3 }] } else { vec![s] }
}

pub fn enabled_ops(snap: &Snapshot, live: &BTreeSet<usize>, all_shapes: bool) -> Vec<Op> {
    let mut out = Vec::new();
    for n in 0..NAMES.len() {
        let pre = abstract_layer(snap, NAMES[n]);
        let cached_flags: &[(bool, bool)] = if all_shapes { &[(true, false), (false, true), (true, true), (false, false)] } else { &[(true, false), (false, true)] };
        for (build, launch) in cached_flags.iter().copied() {
            for m in [MKind::Generic, MKind::V1] {
                let mut push = |restored, invalid, restored2| {
                    let needs_err = restored == Some(RDec::Err) || invalid == Some(IDec::Err) || restored2 == Some(RDec::Err);
                    for shape in shape_for(all_shapes, n, build, m, needs_err) {
                        out.push(Op::Cached { n, build, launch, m, shape, restored, invalid, restored2 });
                    }
                };
                if !present(&pre) {
                    push(None, None, None);
                } else if parses(&pre.metadata(), m) {
                    for r in [RDec::Keep, RDec::Delete, RDec::Err] {
                        push(Some(r), None, None);
                    }
                } else {
                    push(None, Some(IDec::Delete), None);
                    push(None, Some(IDec::Err), None);
                    for r in [RDec::Keep, RDec::Delete, RDec::Err] {
                        push(None, Some(IDec::Replace), Some(r));
                    }
                }
            }
        }
        let uncached_flags: &[(bool, bool)] = if all_shapes { &[(true, false), (false, true), (true, true), (false, false)] } else { &[(true, false), (false, true), (true, true)] };
        for (build, launch) in uncached_flags.iter().copied() {
            out.push(Op::Uncached { n, build, launch });
        }
        if live.contains(&n) {
            for k in 0..5 {
                out.push(Op::WMeta { n, k });
            }
            for k in 0..4 {
                out.push(Op::WEnv { n, k });
            }
            for k in 0..3 {
                out.push(Op::WSbom { n, k });
            }
            for k in 0..4 {
                out.push(Op::WExec { n, k });
            }
            out.push(Op::Put { n });
        }
    }
    out.push(Op::Restore);
    out.push(Op::RestoreSboms);
    out
}

/// Execute `op` after replaying `rep` and judge it against the reference model.
pub fn step(snap: &Snapshot, live: &BTreeSet<usize>, rep: &Rep, op: &Op, verbose: bool) -> St {
    let mut w = World::new(&rep.start);
    for o in &rep.ops {
        w.exec(o);
    }
    let before = w.snap();
    let nondet = &before != snap;
    let (out, log) = w.exec(op);
    let after = w.snap();
    let mut new_live = live.clone();
    let mut bad: Option<(String, String)> = None;
    let mut new_rep = Rep { start: rep.start.clone(), ops: rep.ops.clone() };
    new_rep.ops.push(op.clone());
    if verbose {
        println!("  {op:?}\n    -> {out:?}; callbacks {log:?}");
    }

    let others_untouched = |n: usize| -> Option<(String, String)> {
        for (i, name) in NAMES.iter().enumerate() {
            if i != n && layer_raw(&before, name) != layer_raw(&after, name) {
                return Some(("other-layer-touched".into(), format!("{op:?} changed layer {name}: {:?}", layer_raw(&before, name).diff(&layer_raw(&after, name), 4))));
            }
        }
        // a layer owns exactly <name>/, <name>.toml and <name>.sbom.<known format>: any other entry of
        // the layers directory (also one merely named like the layer: backups, temporaries) is foreign
        let owned = |top: &[u8]| NAMES.iter().any(|n| top == n.as_bytes() || top == format!("{n}.toml").as_bytes() || SBOM_EXTS.iter().any(|e| top == format!("{n}.sbom.{e}").as_bytes()));
        let foreign = |s: &Snapshot| s.filter_top(|top| !owned(top));
        if foreign(&before) != foreign(&after) {
            return Some(("foreign-file-touched".into(), format!("{op:?} changed files that belong to no requested layer: {:?}", foreign(&before).diff(&foreign(&after), 4))));
        }
        None
    };

    match op {
        Op::Restore | Op::RestoreSboms => {
            new_live.clear();
            new_rep = Rep { start: after.clone(), ops: vec![] };
        }
        Op::Cached { n, build, launch, m, shape, restored, invalid, restored2 } => {
            let pre = abstract_layer(&before, NAMES[*n]);
            let post = abstract_layer(&after, NAMES[*n]);
            let pred = predict_cached(&pre, *build, *launch, *m, *shape, *restored, *invalid, *restored2);
            if log != pred.consults {
                let sig = if log.iter().any(|c| matches!(c, Consult::Unexpected(_))) { "unexpected-callback" } else if log.len() != pred.consults.len() { "callback-count" } else { "callback-arguments" };
                bad = Some((sig.into(), format!("{op:?} on [{}]: callbacks observed {log:?}, the decision procedure prescribes {:?}", pre.describe(), pred.consults)));
            } else if out != pred.out {
                bad = Some((format!("reported-state:{}", short_out(&pred.out)), format!("{op:?} on [{}] returned {out:?}, the callbacks decided {:?}", pre.describe(), pred.out)));
            } else if let Some(b) = check_layer(&post, &pre, &pred.layer) {
                bad = Some((b.0, format!("{op:?} on [{}] -> [{}]: {}", pre.describe(), post.describe(), b.1)));
            }
            if bad.is_none() {
                bad = others_untouched(*n);
            }
            if matches!(out, Out::Ok(_)) {
                new_live.insert(*n);
            } else {
                new_live.remove(n);
            }
        }
        Op::Uncached { n, build, launch } => {
            let pre = abstract_layer(&before, NAMES[*n]);
            let post = abstract_layer(&after, NAMES[*n]);
            let types = (*launch, *build, false);
            match &out {
                Out::Ok(Some(o)) => {
                    // the built-in callbacks of uncached_layer always decide "delete": a layer that was there and
                    // whose toml parses is reported as emptied-after-restore, an absent one as newly created
                    let ok_state = if present(&pre) {
                        if matches!(pre.toml, Some(Err(_))) { matches!(o, Obs::EmptyInvalid(_) | Obs::EmptyRestored(_)) } else { matches!(o, Obs::EmptyRestored(_)) }
                    } else {
                        *o == Obs::EmptyNew
                    };
                    if !ok_state {
                        bad = Some(("reported-state:uncached".into(), format!("{op:?} on [{}] returned {o:?}", pre.describe())));
                    } else if let Some(b) = check_layer(&post, &pre, &PredLayer::Fresh { types }) {
                        bad = Some((b.0, format!("{op:?} on [{}] -> [{}]: {}", pre.describe(), post.describe(), b.1)));
                    }
                    new_live.insert(*n);
                }
                other => {
                    bad = Some(("uncached-request-failed".into(), format!("{op:?} on [{}] failed: {other:?}", pre.describe())));
                    new_live.remove(n);
                }
            }
            if bad.is_none() {
                bad = others_untouched(*n);
            }
        }
        Op::WMeta { n, .. } | Op::WEnv { n, .. } | Op::WSbom { n, .. } | Op::WExec { n, .. } | Op::Put { n } => {
            let pre = abstract_layer(&before, NAMES[*n]);
            let post = abstract_layer(&after, NAMES[*n]);
            let mut want = pre.clone();
            let mut expect_err = false;
            match op {
                Op::WMeta { k: 3, .. } => {}
                Op::WMeta { k: 4, .. } => {
                    if let Some(Ok(t)) = &mut want.toml {
                        t.metadata = None;
                    }
                }
                Op::WMeta { k, .. } => {
                    if let Some(Ok(t)) = &mut want.toml {
                        t.metadata = Some(meta_value(*k));
                    }
                }
                Op::WEnv { k, .. } => want.env_files = env_files_of(&env_value(*k)),
                Op::WSbom { k, .. } => want.sboms = sbom_value(*k).into_iter().map(|(_, e, d)| (e.to_string(), d)).collect(),
                Op::WExec { k, .. } => {
                    expect_err = *k == 3;
                    want.execd = execd_value(*k).into_iter().map(|(name, f)| (name.as_bytes().to_vec(), (true, src_content(f)))).collect();
                }
                Op::Put { .. } => {
                    want.files.insert("data", Node::file(b"D"));
                }
                _ => unreachable!(),
            }
            if matches!(op, Op::WMeta { k: 3, .. }) {
                // unrepresentable metadata: an error, and the layer (types, earlier metadata, everything else) as before
                if matches!(out, Out::Ok(_)) {
                    bad = Some(("unrepresentable-metadata-accepted".into(), format!("{op:?} reported success for a value TOML cannot hold")));
                } else if post != pre {
                    bad = Some(("failed-metadata-write-damaged-layer".into(), format!("{op:?} failed ({out:?}) and left [{}], before the call the layer was [{}]", post.describe(), pre.describe())));
                }
            } else if expect_err {
                if matches!(out, Out::Ok(_)) {
                    bad = Some(("missing-execd-source-accepted".into(), format!("{op:?} reported success although a source program does not exist")));
                }
            } else if !matches!(out, Out::Ok(_)) {
                bad = Some((format!("write-failed:{}", op_kind(op)), format!("{op:?} on [{}] failed: {out:?}", pre.describe())));
            } else if post != want {
                bad = Some((format!("write-result:{}", op_kind(op)), format!("{op:?} on [{}] left [{}], replace semantics give [{}]", pre.describe(), post.describe(), want.describe())));
            }
            if bad.is_none() {
                bad = others_untouched(*n);
            }
        }
    }
    St { snap: after, live: new_live, rep: Arc::new(new_rep), bad, nondet }
}

/// Validates the state abstraction (and the property for a history shape the state graph merges):
/// a LayerRef obtained by an EARLIER request of the same build must behave like the latest one.
/// For every pair of requests (7 x 7 flag/kind combinations) on one layer and every write operation,
/// writing through the old reference and through the new one must leave identical directories, and the
/// content-metadata file must still declare the flags of the LATEST request.
pub fn ref_staleness() -> (u64, Vec<(String, String, serde_json::Value)>) {
    let mut reqs: Vec<(bool, bool, bool)> = Vec::new(); // (cached, build, launch)
    for (b, l) in [(false, false), (true, false), (false, true), (true, true)] {
        reqs.push((true, b, l));
    }
    for (b, l) in [(true, false), (false, true), (true, true)] {
        reqs.push((false, b, l));
    }
    let writes = [Op::WMeta { n: 0, k: 0 }, Op::WEnv { n: 0, k: 1 }, Op::WSbom { n: 0, k: 2 }, Op::WExec { n: 0, k: 2 }, Op::Put { n: 0 }];
    let mk = |r: (bool, bool, bool), existing: bool| -> Op {
        if r.0 {
            Op::Cached { n: 0, build: r.1, launch: r.2, m: MKind::Generic, shape: 0, restored: if existing { Some(RDec::Keep) } else { None }, invalid: None, restored2: None }
        } else {
            Op::Uncached { n: 0, build: r.1, launch: r.2 }
        }
    };
    let mut viols = Vec::new();
    let mut n = 0u64;
    for r1 in &reqs {
        for r2 in &reqs {
            for wop in &writes {
                let mut snaps = Vec::new();
                let mut outs = Vec::new();
                for via_old in [true, false] {
                    let mut w = World::new(&Snapshot::new());
                    w.exec(&mk(*r1, false));
                    let old = w.refs.remove(&0);
                    w.exec(&mk(*r2, true));
                    if via_old {
                        if let Some(o) = old {
                            w.refs.insert(0, o);
                        }
                    }
                    let (out, _) = w.exec(wop);
                    outs.push(format!("{out:?}"));
                    snaps.push(w.snap());
                    n += 1;
                }
                let replay = json!({"kind": "ref-staleness", "first": r1, "second": r2, "write": format!("{wop:?}")});
                let what = format!("requests (cached, build, launch) {r1:?} then {r2:?} for one layer in one build, then {wop:?}");
                if snaps[0] != snaps[1] || outs[0] != outs[1] {
                    viols.push(("stale-layer-ref".to_string(), format!("{what}: through the earlier reference -> {} [{}], through the latest -> {} [{}]", outs[0], abstract_layer(&snaps[0], NAMES[0]).describe(), outs[1], abstract_layer(&snaps[1], NAMES[0]).describe()), replay.clone()));
                }
                let want = (r2.2, r2.1, r2.0);
                if abstract_layer(&snaps[0], NAMES[0]).types() != Some(want) {
                    viols.push(("stale-layer-ref-types".to_string(), format!("{what} through the earlier reference: the file declares {:?}, the latest request asked for (launch, build, cache) = {want:?}", abstract_layer(&snaps[0], NAMES[0]).types()), replay));
                }
            }
        }
    }
    (n, viols)
}

fn op_kind(op: &Op) -> &'static str {
    match op {
        Op::WMeta { .. } => "metadata",
        Op::WEnv { .. } => "env",
        Op::WSbom { .. } => "sboms",
        Op::WExec { .. } => "execd",
        Op::Put { .. } => "file",
        _ => "request",
    }
}
fn short_out(o: &Out) -> String {
    match o {
        Out::Ok(Some(Obs::Restored(_))) => "restored".into(),
        Out::Ok(Some(Obs::EmptyNew)) => "empty-new".into(),
        Out::Ok(Some(Obs::EmptyInvalid(_))) => "empty-invalid".into(),
        Out::Ok(Some(Obs::EmptyRestored(_))) => "empty-restored".into(),
        Out::Ok(None) => "ok".into(),
        Out::BpErr(_) => "buildpack-error".into(),
        Out::OtherErr(_) => "error".into(),
    }
}

impl Model for M {
    type State = St;
    type Action = Op;
    fn init_states(&self) -> Vec<St> {
        self.inits.clone()
    }
    fn actions(&self, s: &St, out: &mut Vec<Op>) {
        if s.bad.is_some() {
            return;
        }
        out.extend(enabled_ops(&s.snap, &s.live, self.all_shapes));
    }
    fn next_state(&self, s: &St, a: Op) -> Option<St> {
        Some(step(&s.snap, &s.live, &s.rep, &a, false))
    }
    fn properties(&self) -> Vec<Property<Self>> {
        vec![
            Property::always("implementation == reference layer model", |_, s: &St| s.bad.is_none()),
            Property::always("replay of a representative is deterministic", |_, s: &St| !s.nondet),
        ]
    }
}

fn empty_state() -> St {
    St { snap: Snapshot::new(), live: BTreeSet::new(), rep: Arc::new(Rep { start: Snapshot::new(), ops: vec![] }), bad: None, nondet: false }
}

/// Seeded initial states, all produced by real operations (reachable by construction).
pub fn seed_ops() -> Vec<(&'static str, Vec<Op>)> {
    let c = |n, m| Op::Cached { n, build: true, launch: false, m, shape: 0, restored: None, invalid: None, restored2: None };
    let rich = |meta_k| vec![c(0, MKind::Generic), Op::WMeta { n: 0, k: meta_k }, Op::WEnv { n: 0, k: 1 }, Op::WSbom { n: 0, k: 2 }, Op::WExec { n: 0, k: 2 }, Op::Put { n: 0 }];
    let mut v = vec![("empty", vec![]), ("rich(a) in first build", rich(0))];
    let mut r = rich(0);
    r.push(Op::Restore);
    v.push(("rich(a) restored", r));
    let mut r = rich(0);
    r.extend([Op::Uncached { n: 1, build: false, launch: true }, Op::WMeta { n: 1, k: 0 }, Op::Restore]);
    v.push(("rich(a) + launch-only b (toml without dir) restored", r));
    let mut r = rich(1);
    r.push(Op::Restore);
    v.push(("rich(a) with legacy metadata restored", r));
    // what the spec's restore leaves of a launch-only layer that has an SBOM: toml + SBOM files, no directory
    v.push(("launch-only b with SBOMs restored (toml and SBOM files, no directory)", vec![Op::Uncached { n: 1, build: false, launch: true }, Op::WMeta { n: 1, k: 0 }, Op::WSbom { n: 1, k: 2 }, Op::RestoreSboms]));
    v
}

pub fn build_inits(rep: &mut Reporter) -> Vec<St> {
    let mut inits = Vec::new();
    for (label, ops) in seed_ops() {
        let mut st = empty_state();
        for op in &ops {
            st = step(&st.snap, &st.live, &st.rep, op, false);
            if let Some((sig, what)) = &st.bad {
                // a violation on the way to a seed state is a (short) counterexample of its own
                rep.violation(sig, what.clone(), json!({"ops": st.rep.ops, "start": [], "seed": label}));
                break;
            }
        }
        if st.bad.is_none() {
            inits.push(st);
        }
    }
    inits
}

pub fn run(args: &Args) {
    let mut rep = Reporter::new("C01", "model_checking", args);
    if let Some(path) = &args.replay {
        replay(path, &mut rep);
        rep.finish();
    }
    let depth = if args.thorough() { 5 } else { 3 };
    let inits = build_inits(&mut rep);
    let n_inits = inits.len();
    let m = M { inits, all_shapes: args.thorough() };
    let r = bfs_levels(&m, &BfsOpts { max_depth: depth, max_transitions: if args.thorough() { 20_000_000 } else { 2_000_000 }, max_wall: std::time::Duration::from_secs(if args.thorough() { 1500 } else { 100 }), ..Default::default() });
    let mut outcomes = BTreeSet::new();
    for cx in &r.violations {
        if cx.property.starts_with("replay") {
            rep.machinery(format!("non-deterministic replay of a representative: {:?}", cx.path));
            continue;
        }
        let (sig, what) = cx.state.bad.clone().unwrap();
        outcomes.insert(sig.clone());
        rep.violation(&sig, what, json!({"start": snap_json(&cx.state.rep.start), "ops": cx.state.rep.ops, "path_from_seed": cx.path}));
    }
    let (stale_runs, stale_viols) = ref_staleness();
    for (sig, what, rp) in stale_viols {
        rep.violation(&sig, what, rp);
    }
    rep.cov("ref_staleness_runs", stale_runs);
    rep.cov("states", r.states);
    rep.cov("transitions", r.transitions);
    rep.cov("traces_validated_against_impl", r.transitions);
    rep.cov("max_depth", r.max_depth as u64);
    rep.cov("per_level", json!(r.per_level));
    rep.cov("seed_states", n_inits as u64);
    rep.cov("evaluations", r.transitions);
    rep.cov("distinct_nontrivial", r.states.saturating_sub(n_inits as u64));
    rep.cov("rule", "transitions = real cached_layer/uncached_layer/write_*/restore executions from distinct (layers-dir snapshot, live refs) states, BFS from 6 seeded states built by real operations; distinct_nontrivial = distinct non-seed states reached (each judged against the reference model after the transition that produced it)");
    rep.cov("bound", json!({"depth": depth, "names": NAMES, "requests": "cached x {(build),(launch)} x {Generic,V1} x restored{Keep,Delete,Err} / invalid{Delete,Replace->restored,Err} x IntoAction shapes; uncached x 3 flag sets", "writes": "metadata 5 (3 values, one TOML cannot represent, None), env 4 (all scopes incl. 2 processes), sboms 3, exec.d 4 (incl. missing source), plain file", "shapes": if args.thorough() {"all 4 per request"} else {"rotated with (name,flags,type)"}}));
    rep.cov("exhaustive", r.cap_hit.is_none());
    if let Some(c) = &r.cap_hit {
        rep.cov("cap_hit", c.clone());
    }
    rep.sample(json!({"deepest_path": r.deepest_path}));
    rep.sample(json!({"seed": seed_ops()[3].0, "ops": seed_ops()[3].1}));
    rep.assume("simulated lifecycle restore, two variants as separate operations: cache=true keeps dir+toml(without types)+SBOMs; launch-only keeps toml only (Restore) or toml + SBOM files (RestoreSboms, the spec's wording for launch layers); everything else vanishes");
    rep.assume("a LayerRef carries no mutable state (name, layers dir), so a state is (directory snapshot, set of layers with a live ref) - validated on every run by the ref-staleness differential (7x7 request pairs x 5 writes through the earlier and the latest reference); each transition re-creates the refs by replaying the current build's operations and asserts the replay reproduces the state");
    rep.finish();
}

fn snap_json(s: &Snapshot) -> serde_json::Value {
    serde_json::to_value(s).unwrap()
}

pub fn replay(path: &str, rep: &mut Reporter) {
    let doc: serde_json::Value = serde_json::from_str(&std::fs::read_to_string(path).expect("replay file")).expect("json");
    let r = &doc["replay"];
    if r["kind"] == "ref-staleness" {
        for (sig, what, _) in ref_staleness().1 {
            println!("DIFFERENCE: {what}");
            rep.violation(&sig, what, json!({}));
        }
        return;
    }
    let start: Snapshot = serde_json::from_value(r["start"].clone()).unwrap_or_default();
    let ops: Vec<Op> = serde_json::from_value(r["ops"].clone()).expect("ops");
    println!("start: {}", start.to_json());
    let mut st = St { snap: start.clone(), live: BTreeSet::new(), rep: Arc::new(Rep { start, ops: vec![] }), bad: None, nondet: false };
    for op in &ops {
        st = step(&st.snap, &st.live, &st.rep, op, true);
        if let Some((sig, what)) = &st.bad {
            println!("DIFFERENCE: {what}");
            rep.violation(sig, what.clone(), json!({}));
            return;
        }
    }
    println!("final layers dir: {}", st.snap.to_json());
    println!("implementation and reference model agree on this history");
}
