//! C10 — implicit layer paths: complete 6^4 assignment space x explicit env x start env x scope,
//! plus read->write fixpoint histories through LayerEnv, the struct API and the trait API.
#![allow(deprecated)]
use libcnb::build::BuildContext;
use libcnb::data::layer_content_metadata::LayerTypes;
use libcnb::generic::GenericMetadata;
use libcnb::layer::{CachedLayerDefinition, ExistingLayerStrategy, InvalidMetadataAction, Layer, LayerData, LayerResult, LayerResultBuilder, RestoredLayerAction};
use libcnb::layer_env::LayerEnv;
use rayon::prelude::*;
use serde_json::json;
use std::collections::BTreeSet;
use std::path::Path;
use vh::envref::*;
use vh::layermodel::*;
use vh::report::{Args, Reporter};
use vh::snapshot::{Scratch, Snapshot};

use crate::c04::fmt_plain;

const N_EXPLICIT: usize = 10;
const SUBDIRS: [&str; 4] = ["bin", "lib", "include", "pkgconfig"];
// the last two do not resolve for reasons other than "no such file": ELOOP and ENOTDIR
const KINDS: [&str; 8] = ["absent", "dir", "file", "link->dir", "link->file", "dangling", "link->itself", "link->below-a-file"];

fn is_dir_kind(k: usize) -> bool {
    k == 1 || k == 3
}

fn explicit_envs(layer: &Path) -> Vec<(&'static str, AbsEnv)> {
    let l = layer.to_str().unwrap().to_string();
    let mk = |items: &[(Sc, Beh, &str, &str)]| -> AbsEnv { items.iter().map(|(s, b, n, v)| ((s.clone(), *b, n.as_bytes().to_vec()), v.replace("<LAYER>", &l).into_bytes())).collect() };
    vec![
        ("none", AbsEnv::new()),
        ("PATH override in all", mk(&[(Sc::All, Beh::Override, "PATH", "/explicit")])),
        ("PATH append+delim in build", mk(&[(Sc::Build, Beh::Append, "PATH", "/appended"), (Sc::Build, Beh::Delim, "PATH", ":")])),
        ("LD_LIBRARY_PATH default in launch", mk(&[(Sc::Launch, Beh::Default, "LD_LIBRARY_PATH", "/dflt")])),
        ("CPATH prepend in build", mk(&[(Sc::Build, Beh::Prepend, "CPATH", "/pre")])),
        // a non-empty env.launch/<process>/ directory: the implicit entries still apply for build and
        // launch only, and a read->write cycle must not add anything to the process directory
        // explicit entries whose value is exactly the implicit one (the layer's own bin/lib path)
        ("PATH default=<layer>/bin in build", mk(&[(Sc::Build, Beh::Default, "PATH", "<LAYER>/bin")])),
        ("LD_LIBRARY_PATH append=<layer>/lib in all, no delimiter", mk(&[(Sc::All, Beh::Append, "LD_LIBRARY_PATH", "<LAYER>/lib")])),
        ("PATH prepend=<layer>/bin + delim in launch", mk(&[(Sc::Launch, Beh::Prepend, "PATH", "<LAYER>/bin"), (Sc::Launch, Beh::Delim, "PATH", ":")])),
        ("X override in process p", mk(&[(Sc::Process("p".into()), Beh::Override, "X", "1")])),
        ("PATH append+delim in process p, LD_LIBRARY_PATH default in launch", mk(&[(Sc::Process("p".into()), Beh::Append, "PATH", "/proc"), (Sc::Process("p".into()), Beh::Delim, "PATH", ":"), (Sc::Launch, Beh::Default, "LD_LIBRARY_PATH", "/dflt")])),
    ]
}

fn start_envs() -> Vec<PlainEnv> {
    let vars = ["PATH", "LIBRARY_PATH", "LD_LIBRARY_PATH", "CPATH", "PKG_CONFIG_PATH"];
    vec![
        PlainEnv::new(),
        vars.iter().map(|v| (v.as_bytes().to_vec(), format!("/orig/{v}").into_bytes())).collect(),
        vars.iter().map(|v| (v.as_bytes().to_vec(), Vec::new())).collect(),
        // values that begin and end with the separator (empty list elements = current directory)
        vars.iter().map(|v| (v.as_bytes().to_vec(), format!(":/orig/{v}:").into_bytes())).collect(),
    ]
}

fn make_layer(layer: &Path, outside: &Path, assign: [usize; 4]) {
    std::fs::create_dir_all(layer).unwrap();
    std::fs::create_dir_all(outside.join("tdir")).unwrap();
    std::fs::write(outside.join("tfile"), b"f").unwrap();
    for (i, sub) in SUBDIRS.iter().enumerate() {
        let p = layer.join(sub);
        match assign[i] {
            0 => {}
            1 => {
                std::fs::create_dir(&p).unwrap();
                // a nested directory called like one of the four (lib/pkgconfig, bin/lib, ...): only the
                // layer's own top-level sub-directories count
                std::fs::create_dir(p.join(SUBDIRS[(i + 2) % 4])).unwrap();
                std::fs::create_dir(p.join("pkgconfig")).ok();
            }
            2 => std::fs::write(&p, b"plain").unwrap(),
            3 => std::os::unix::fs::symlink(outside.join("tdir"), &p).unwrap(),
            4 => std::os::unix::fs::symlink(outside.join("tfile"), &p).unwrap(),
            5 => std::os::unix::fs::symlink(outside.join("nowhere"), &p).unwrap(),
            6 => std::os::unix::fs::symlink(sub, &p).unwrap(),
            _ => std::os::unix::fs::symlink(outside.join("tfile").join(sub), &p).unwrap(),
        }
    }
}

fn reference(layer: &Path, assign: [usize; 4], abs: &AbsEnv, scope: &Sc, start: &PlainEnv) -> PlainEnv {
    let mut e = ref_apply(abs, scope, start);
    for (var, sub) in implicit(scope) {
        let idx = SUBDIRS.iter().position(|s| s == sub).unwrap();
        if is_dir_kind(assign[idx]) {
            let dir = layer.join(sub).into_os_string().into_encoded_bytes();
            let key = var.as_bytes().to_vec();
            let new = match e.get(&key) {
                Some(old) if !old.is_empty() => [dir, b":".to_vec(), old.clone()].concat(),
                _ => dir,
            };
            e.insert(key, new);
        }
    }
    e
}

struct KeepLayer;
impl Layer for KeepLayer {
    type Buildpack = VB;
    type Metadata = GenericMetadata;
    fn types(&self) -> LayerTypes {
        LayerTypes { launch: true, build: true, cache: true }
    }
    fn create(&mut self, _c: &BuildContext<VB>, _p: &Path) -> Result<LayerResult<GenericMetadata>, VErr> {
        LayerResultBuilder::new(None).build()
    }
    fn existing_layer_strategy(&mut self, _c: &BuildContext<VB>, _d: &LayerData<GenericMetadata>) -> Result<ExistingLayerStrategy, VErr> {
        Ok(ExistingLayerStrategy::Keep)
    }
}
struct UpdateDefaultLayer;
impl Layer for UpdateDefaultLayer {
    type Buildpack = VB;
    type Metadata = GenericMetadata;
    fn types(&self) -> LayerTypes {
        LayerTypes { launch: true, build: true, cache: true }
    }
    fn create(&mut self, _c: &BuildContext<VB>, _p: &Path) -> Result<LayerResult<GenericMetadata>, VErr> {
        LayerResultBuilder::new(None).build()
    }
    fn existing_layer_strategy(&mut self, _c: &BuildContext<VB>, _d: &LayerData<GenericMetadata>) -> Result<ExistingLayerStrategy, VErr> {
        Ok(ExistingLayerStrategy::Update)
    }
}

/// keeps the layer and records what the strategy callback is shown as the layer's build environment
struct ProbeLayer {
    seen: std::rc::Rc<std::cell::RefCell<Option<PlainEnv>>>,
}
impl Layer for ProbeLayer {
    type Buildpack = VB;
    type Metadata = GenericMetadata;
    fn types(&self) -> LayerTypes {
        LayerTypes { launch: true, build: true, cache: true }
    }
    fn create(&mut self, _c: &BuildContext<VB>, _p: &Path) -> Result<LayerResult<GenericMetadata>, VErr> {
        LayerResultBuilder::new(None).build()
    }
    fn existing_layer_strategy(&mut self, _c: &BuildContext<VB>, d: &LayerData<GenericMetadata>) -> Result<ExistingLayerStrategy, VErr> {
        *self.seen.borrow_mut() = Some(plain_of(&d.env.apply_to_empty(libcnb::layer_env::Scope::Build)));
        Ok(ExistingLayerStrategy::Keep)
    }
}

/// An env directory that cannot be read completely (a dangling symlink among its files): the call
/// may fail, but a layer handed to the strategy callback shows the implicit entries its directories
/// are due (it is never "a layer without environment").
fn broken_env_dir(assign: [usize; 4]) -> (u64, Vec<Viol>) {
    let mut viols = Vec::new();
    let mut evals = 0;
    for which in ["env", "env.build", "env.launch"] {
        let sc = Scratch::new("c10b");
        let ctx = mk_context(&sc.path);
        let layer = ctx.layers_dir.join("a");
        make_layer(&layer, &sc.path.join("outside"), assign);
        std::fs::write(ctx.layers_dir.join("a.toml"), "[types]\ncache = true\nbuild = true\nlaunch = true\n").unwrap();
        std::fs::create_dir_all(layer.join(which)).unwrap();
        std::fs::write(layer.join(which).join("FOO.override"), "1").unwrap();
        std::os::unix::fs::symlink(sc.path.join("nowhere"), layer.join(which).join("BROKEN.override")).unwrap();
        let seen = std::rc::Rc::new(std::cell::RefCell::new(None));
        let r = ctx.handle_layer("a".parse().unwrap(), ProbeLayer { seen: seen.clone() });
        evals += 1;
        if let Some(env) = seen.borrow().clone() {
            let want = reference(&layer, assign, &AbsEnv::new(), &Sc::Build, &PlainEnv::new());
            for (k, v) in &want {
                if env.get(k) != Some(v) {
                    viols.push(("implicit-entry-missing-with-unreadable-env-dir".into(), format!("layer {:?} whose {which}/ holds a dangling symlink: the strategy callback was shown the build environment {} (call result ok={}), but {} is due", (0..4).map(|i| format!("{}={}", SUBDIRS[i], KINDS[assign[i]])).collect::<Vec<_>>(), fmt_plain(&env), r.is_ok(), fmt_plain(&want)).replace(sc.path.to_str().unwrap(), "<root>"), json!({"assign": assign, "broken": which})));
                    break;
                }
            }
        }
    }
    (evals, viols)
}

fn env_part(s: &Snapshot) -> Snapshot {
    s.filter_top(|t| t == b"env" || t == b"env.build" || t == b"env.launch")
}

type Viol = (String, String, serde_json::Value);

fn one_assignment(assign: [usize; 4], cycles: usize) -> (u64, u64, Vec<Viol>, BTreeSet<Vec<u8>>) {
    let mut viols: Vec<Viol> = Vec::new();
    let mut evals = 0u64;
    let mut fix = 0u64;
    let mut outcomes = BTreeSet::new();
    let desc = |i: usize| format!("{}={}", SUBDIRS[i], KINDS[assign[i]]);
    let adesc: Vec<String> = (0..4).map(desc).collect();
    // the scratch path differs per environment, so the list is rebuilt for each
    for ei in 0..N_EXPLICIT {
        let sc = Scratch::new("c10");
        let ctx = mk_context(&sc.path);
        let layer = ctx.layers_dir.join("a");
        let (ename, abs) = explicit_envs(&layer).swap_remove(ei);
        make_layer(&layer, &sc.path.join("outside"), assign);
        std::fs::write(ctx.layers_dir.join("a.toml"), "[types]\ncache = true\nbuild = true\nlaunch = true\n").unwrap();
        real_env(&abs).write_to_layer_dir(&layer).expect("write explicit env");
        let read = match LayerEnv::read_from_layer_dir(&layer) {
            Ok(r) => r,
            Err(e) => {
                viols.push(("read-failed".into(), format!("reading layer {adesc:?} with env '{ename}' failed: {e}"), json!({"assign": assign, "env": ename})));
                continue;
            }
        };
        for scope in [Sc::All, Sc::Build, Sc::Launch, Sc::Process("p".into())] {
            for start in start_envs() {
                evals += 1;
                let got = plain_of(&read.apply(scope.real(), &real_plain(&start)));
                let want = reference(&layer, assign, &abs, &scope, &start);
                if start.is_empty() {
                    // the convenience entry point is the same function on the empty environment
                    let short = plain_of(&read.apply_to_empty(scope.real()));
                    if short != got {
                        viols.push((format!("apply-to-empty-differs:{}", scope_name(&scope)), format!("layer {adesc:?}, explicit env '{ename}', scope {scope:?}: apply_to_empty gives {} but apply on the empty environment gives {}", fmt_plain(&short), fmt_plain(&got)).replace(sc.path.to_str().unwrap(), "<root>"), json!({"assign": assign, "env": ename})));
                    }
                }
                // record outcome shape with the scratch path normalised
                let norm: Vec<u8> = format!("{:?}{}", scope, fmt_plain(&got)).replace(sc.path.to_str().unwrap(), "<root>").into_bytes();
                outcomes.insert(norm);
                if got != want {
                    let extra = got.keys().any(|k| want.get(k).map(|w| w.len() < got[k].len()).unwrap_or(true));
                    let sig = if extra { format!("implicit-entry-not-due:{}", scope_name(&scope)) } else { format!("implicit-entry-missing-or-wrong:{}", scope_name(&scope)) };
                    viols.push((sig, format!("layer {adesc:?}, explicit env '{ename}', scope {scope:?}, start {}: got {} want {}", fmt_plain(&start), fmt_plain(&got), fmt_plain(&want)).replace(sc.path.to_str().unwrap(), "<root>"), json!({"assign": assign, "env": ename})));
                }
            }
        }
        // fixpoint histories: read -> write, `cycles` times, by three routes
        let base = env_part(&Snapshot::take(&layer).unwrap());
        let expect_files = env_files_of(&abs);
        for route in 0..6 {
            for c in 0..cycles {
                fix += 1;
                if route >= 4 {
                    // as the lifecycle restores a cached layer: the content metadata without [types]
                    std::fs::write(ctx.layers_dir.join("a.toml"), "[metadata]\nk = 1\n").unwrap();
                }
                let r: Result<(), String> = match route {
                    0 => LayerEnv::read_from_layer_dir(&layer).and_then(|e| e.write_to_layer_dir(&layer)).map_err(|e| e.to_string()),
                    1 => ctx
                        .cached_layer("a".parse::<libcnb::data::layer::LayerName>().unwrap(), CachedLayerDefinition { build: true, launch: true, invalid_metadata_action: &|_| InvalidMetadataAction::DeleteLayer::<GenericMetadata>, restored_layer_action: &|_: &GenericMetadata, _| RestoredLayerAction::KeepLayer })
                        .and_then(|lr| lr.read_env().and_then(|e| lr.write_env(e)))
                        .map_err(|e| format!("{e:?}")),
                    2 | 4 => ctx.handle_layer("a".parse().unwrap(), KeepLayer).map(|_| ()).map_err(|e| format!("{e:?}")),
                    _ => ctx.handle_layer("a".parse().unwrap(), UpdateDefaultLayer).map(|_| ()).map_err(|e| format!("{e:?}")),
                };
                let route_name = ["LayerEnv read->write", "cached_layer keep + read_env->write_env", "handle_layer Keep", "handle_layer Update (default impl)", "handle_layer Keep on a restored layer (no [types])", "handle_layer Update (default impl) on a restored layer (no [types])"][route];
                if let Err(e) = r {
                    viols.push((format!("fixpoint-call-failed:{route}"), format!("layer {adesc:?}, env '{ename}': {route_name} cycle {} failed: {e}", c + 1), json!({"assign": assign, "env": ename, "route": route})));
                    break;
                }
                let now = env_part(&Snapshot::take(&layer).unwrap());
                let files: std::collections::BTreeMap<Vec<u8>, Vec<u8>> = abstract_layer(&Snapshot::take(&ctx.layers_dir).unwrap(), "a").env_files;
                if files != expect_files {
                    viols.push((format!("implicit-entry-persisted:{route}"), format!("layer {adesc:?}, env '{ename}': after {} x {route_name} the env directories changed: {:?}", c + 1, base.diff(&now, 6)), json!({"assign": assign, "env": ename, "route": route, "cycles": c + 1})));
                    break;
                }
            }
        }
        // read -> insert -> write: entries added to an environment that was read from the layer are
        // persisted as given, next to the explicit entries, and the implicit ones (and their
        // delimiter) still are not
        for (scope, beh, var, val) in [(Sc::Launch, Beh::Append, "LD_LIBRARY_PATH", "/ins"), (Sc::Build, Beh::Prepend, "PATH", "/ins"), (Sc::Build, Beh::Append, "CPATH", "/ins")] {
            fix += 1;
            // back to the explicit env as first written
            let _ = std::fs::remove_dir_all(layer.join("env"));
            let _ = std::fs::remove_dir_all(layer.join("env.build"));
            let _ = std::fs::remove_dir_all(layer.join("env.launch"));
            real_env(&abs).write_to_layer_dir(&layer).expect("rewrite explicit env");
            let mut want_abs = abs.clone();
            want_abs.insert((scope.clone(), beh, var.as_bytes().to_vec()), val.as_bytes().to_vec());
            let r = LayerEnv::read_from_layer_dir(&layer).and_then(|mut e| {
                e.insert(scope.real(), beh.real(), var, val);
                e.write_to_layer_dir(&layer)
            });
            if let Err(e) = r {
                viols.push(("fixpoint-call-failed:insert".into(), format!("layer {adesc:?}, env '{ename}': read -> insert -> write failed: {e}"), json!({"assign": assign, "env": ename})));
                continue;
            }
            let files: std::collections::BTreeMap<Vec<u8>, Vec<u8>> = abstract_layer(&Snapshot::take(&ctx.layers_dir).unwrap(), "a").env_files;
            if files != env_files_of(&want_abs) {
                viols.push(("implicit-entry-persisted:insert".into(), format!("layer {adesc:?}, env '{ename}': read -> insert({scope:?}, {beh:?}, {var}) -> write left {:?}, expected {:?}", files.iter().map(|(k, v)| format!("{}={}", String::from_utf8_lossy(k), String::from_utf8_lossy(v))).collect::<Vec<_>>(), env_files_of(&want_abs).iter().map(|(k, v)| format!("{}={}", String::from_utf8_lossy(k), String::from_utf8_lossy(v))).collect::<Vec<_>>()), json!({"assign": assign, "env": ename})));
            }
        }
    }
    (evals, fix, viols, outcomes)
}

/// The layer directory spelled in ways other than a plain UTF-8 absolute path: the implicit
/// entries must hold `<layer path as handed over>/<subdir>` byte for byte.
const PATH_FORMS: [&str; 7] = ["non-UTF-8 component", "trailing slash", "dot and dot-dot segments", "through a symlinked parent", "space, colon and '=' in a component", "backslash-question-mark component", "U+FFFD and other non-ASCII in a component"];

fn path_forms(assign: [usize; 4]) -> (u64, Vec<Viol>) {
    use std::os::unix::ffi::OsStrExt;
    let mut viols = Vec::new();
    let mut evals = 0;
    for (fi, form) in PATH_FORMS.iter().enumerate() {
        let sc = Scratch::new("c10p");
        let base = sc.path.join("layers");
        std::fs::create_dir_all(&base).unwrap();
        let layer: std::path::PathBuf = match fi {
            0 => base.join(std::ffi::OsStr::from_bytes(b"p\xff\xfeq")).join("a"),
            1 => std::path::PathBuf::from(format!("{}/a/", base.display())),
            2 => {
                std::fs::create_dir_all(base.join("x")).unwrap();
                std::path::PathBuf::from(format!("{}/./x/../a", base.display()))
            }
            3 => {
                std::fs::create_dir_all(sc.path.join("real")).unwrap();
                std::os::unix::fs::symlink(sc.path.join("real"), base.join("link")).unwrap();
                base.join("link").join("a")
            }
            4 => base.join("a b:c=d").join("a"),
            5 => base.join("\\\\?\\C:").join("a"),
            _ => base.join("\u{fffd}\u{e9}\u{1f600}").join("a"),
        };
        make_layer(&layer, &sc.path.join("outside"), assign);
        let read = match LayerEnv::read_from_layer_dir(&layer) {
            Ok(r) => r,
            Err(e) => {
                viols.push(("path-form:read-failed".into(), format!("layer directory spelled with {form}: read failed: {e}"), json!({"assign": assign, "path_form": fi})));
                continue;
            }
        };
        for scope in [Sc::Build, Sc::Launch, Sc::Process("p".into())] {
            for start in start_envs() {
                evals += 1;
                let got = plain_of(&read.apply(scope.real(), &real_plain(&start)));
                let want = reference(&layer, assign, &AbsEnv::new(), &scope, &start);
                if got != want {
                    viols.push((format!("path-form:implicit-entry-wrong:{}", scope_name(&scope)), format!("layer directory spelled with {form}, {:?}, scope {scope:?}, start {}: got {} want {}", (0..4).map(|i| format!("{}={}", SUBDIRS[i], KINDS[assign[i]])).collect::<Vec<_>>(), fmt_plain(&start), fmt_plain(&got), fmt_plain(&want)), json!({"assign": assign, "path_form": fi})));
                }
            }
        }
    }
    (evals, viols)
}

fn scope_name(s: &Sc) -> &'static str {
    match s {
        Sc::All => "all",
        Sc::Build => "build",
        Sc::Launch => "launch",
        Sc::Process(_) => "process",
    }
}

pub fn run(args: &Args) {
    let mut rep = Reporter::new("C10", "exploration", args);
    let cycles = if args.thorough() { 3 } else { 2 };
    let mut assigns: Vec<[usize; 4]> = Vec::new();
    if let Some(path) = &args.replay {
        let doc: serde_json::Value = serde_json::from_str(&std::fs::read_to_string(path).expect("replay file")).expect("json");
        let a: Vec<usize> = serde_json::from_value(doc["replay"]["assign"].clone()).unwrap();
        assigns.push([a[0], a[1], a[2], a[3]]);
    } else {
        // quick: all 6^4 assignments of the first six kinds plus all 4^4 over {absent, dir, ELOOP, ENOTDIR};
        // thorough: all 8^4
        for a in 0..8 {
            for b in 0..8 {
                for c in 0..8 {
                    for d in 0..8 {
                        let x = [a, b, c, d];
                        if args.thorough() || x.iter().all(|k| *k < 6) || x.iter().all(|k| [0, 1, 6, 7].contains(k)) {
                            assigns.push(x);
                        }
                    }
                }
            }
        }
    }
    let results: Vec<_> = assigns.par_iter().map(|a| one_assignment(*a, cycles)).collect();
    let mut evals = 0;
    let mut fix = 0;
    let mut outcomes = BTreeSet::new();
    for (e, f, v, o) in results {
        evals += e;
        fix += f;
        outcomes.extend(o);
        for (sig, what, r) in v {
            if args.replay.is_some() {
                println!("DIFFERENCE: {what}");
            }
            rep.violation(&sig, what, r);
        }
    }
    // layer directory spellings: every assignment over {absent, dir, link->dir} x 7 spellings
    let mut pf = 0u64;
    let pf_assigns: Vec<[usize; 4]> = assigns.iter().copied().filter(|x| x.iter().all(|k| [0, 1, 3].contains(k))).collect();
    let pres: Vec<_> = pf_assigns.par_iter().map(|a| path_forms(*a)).collect();
    for (e, v) in pres {
        pf += e;
        for (sig, what, r) in v {
            if args.replay.is_some() {
                println!("DIFFERENCE: {what}");
            }
            rep.violation(&sig, what, r);
        }
    }
    // env directories holding a dangling symlink, through the trait API
    let bres: Vec<_> = pf_assigns.par_iter().map(|a| broken_env_dir(*a)).collect();
    let mut be = 0u64;
    for (e, v) in bres {
        be += e;
        for (sig, what, r) in v {
            rep.violation(&sig, what, r);
        }
    }
    rep.cov("broken_env_dir_evaluations", be);
    rep.cov("path_form_evaluations", pf);
    rep.cov("evaluations", evals + fix + pf + be);
    rep.cov("apply_evaluations", evals);
    rep.cov("fixpoint_cycles_run", fix);
    rep.cov("distinct_nontrivial", outcomes.len() as u64);
    rep.cov("distinct_outcomes", outcomes.len() as u64);
    rep.cov("rule", "all 6^4 assignments of {absent, dir (holding nested directories called like the four, e.g. lib/pkgconfig), file, symlink->dir, symlink->file, dangling symlink} to bin/lib/include/pkgconfig, plus two kinds that fail to resolve with ELOOP / ENOTDIR (quick: all 4^4 over {absent, dir, ELOOP, ENOTDIR}; thorough: all 8^4) x 10 explicit envs (two with a non-empty per-process directory, three whose value is exactly the layer's own bin/lib path) on the same variables x 4 start envs (unset, set, empty, beginning and ending with the separator) x 4 query scopes, each read by the real read_from_layer_dir and compared with the reference (apply_to_empty must equal apply on the empty environment); per assignment x explicit env, read->write cycles by 6 routes (LayerEnv, cached_layer keep+read_env/write_env, handle_layer Keep, handle_layer Update with the default impl, the last two also on a restored layer whose toml has no [types]) must leave the env directories unchanged, and read -> insert (3 entries on variables that have implicit values) -> write must add exactly the inserted entry; env directories with a dangling symlink among their files (3^4 assignments x 3 directories, through handle_layer: the call may fail, but a layer shown to the strategy callback carries the implicit entries); layer directory spellings: all 3^4 assignments over {absent, dir, link->dir} x 7 spellings of the layer path (non-UTF-8 component, trailing slash, ./.. segments, symlinked parent, space/colon/'=', a \\\\?\\ component, U+FFFD/non-ASCII) x 3 scopes x 4 start envs: the implicit value is the handed-over path joined with the sub-directory, byte for byte. distinct_nontrivial = distinct (scope, resulting environment) outcomes with the scratch path normalised");
    rep.cov("bound", json!({"assignments": assigns.len(), "explicit_envs": 10, "start_envs": 4, "scopes": 4, "cycles": cycles, "routes": 6}));
    rep.cov("exhaustive", true);
    rep.sample(json!({"assignment": {"bin": "link->dir", "lib": "file", "include": "dir", "pkgconfig": "dangling"}, "explicit": "PATH append+delim in build", "scope": "Build", "start": "all five variables set"}));
    rep.sample(json!({"fixpoint": "bin=dir lib=dir include=absent pkgconfig=absent; handle_layer Keep x3; env dirs must stay as written"}));
    rep.assume("implicit entries apply after the explicit ones (the property says 'prepends'; relative order with explicit entries on the same variable follows from prepending last)");
    rep.finish();
}
