//! C02 — trait-API (`handle_layer`) callbacks and persistence.
//! Explicit-state BFS; every transition runs the real `BuildContext::handle_layer` with a scripted
//! `Layer` implementation whose callbacks answer from the action and log their invocations; the
//! reference model (DESIGN A.2) predicts callbacks, result and the on-disk layer.
#![allow(deprecated)]
use crate::c01::{MKind, MetaProbe, V1, env_value, parses, sbom_value, src_content};
use libcnb::build::BuildContext;
use libcnb::data::layer::LayerName;
use libcnb::data::layer_content_metadata::LayerTypes;
use libcnb::generic::GenericMetadata;
use libcnb::layer::{ExistingLayerStrategy, Layer, LayerData, LayerResult, LayerResultBuilder, MetadataMigration};
use libcnb::sbom::Sbom;
use serde::{Deserialize, Serialize};
use serde_json::json;
use stateright::{Model, Property};
use std::cell::RefCell;
use std::collections::BTreeSet;
use std::path::{Path, PathBuf};
use std::rc::Rc;
use vh::engine::{BfsOpts, bfs_levels};
use vh::envref::*;
use vh::layermodel::*;
use vh::report::{Args, Reporter};
use vh::snapshot::{Node, Scratch, Snapshot};

const NAMES: [&str; 2] = ["a.b", "a"];

#[derive(Clone, Copy, Debug, PartialEq, Eq, Hash, Serialize, Deserialize)]
pub enum Strat {
    Keep,
    Update,
    Recreate,
    Err,
}
#[derive(Clone, Copy, Debug, PartialEq, Eq, Hash, Serialize, Deserialize)]
pub enum Mig {
    Recreate,
    Replace,
    Err,
}
/// what create/update return: a result from the result alphabet, an error, or (update only) the
/// trait's default implementation
#[derive(Clone, Copy, Debug, PartialEq, Eq, Hash, Serialize, Deserialize)]
pub enum Ret {
    Res(u8),
    Err,
    DefaultImpl,
}

#[derive(Clone, Debug, PartialEq, Eq, Hash, Serialize, Deserialize)]
pub enum Op {
    Handle { n: usize, types: u8, m: MKind, strategy: Option<Strat>, migration: Option<Mig>, strategy2: Option<Strat>, create: Option<Ret>, update: Option<Ret> },
    Restore,
    /// restore in which a launch-only layer's SBOM files come back with its metadata file
    RestoreSboms,
}

/// (launch, build, cache)
pub fn types_of(k: u8) -> (bool, bool, bool) {
    match k {
        0 => (false, true, true),
        1 => (true, false, true),
        2 => (true, false, false),
        _ => (false, true, false),
    }
}

/// result alphabet: (metadata variant, env k, exec.d k, sbom k)
#[derive(Clone, Copy, Debug)]
pub struct ResSpec {
    md: u8,
    env: Option<u8>,
    execd: u8,
    sbom: u8,
}
pub fn res_alphabet(full: bool) -> Vec<ResSpec> {
    if full {
        let mut v = Vec::new();
        for md in 0..2 {
            for env in [None, Some(1u8), Some(2), Some(3)] {
                for execd in 0..2 {
                    for sbom in 0..3 {
                        v.push(ResSpec { md, env, execd, sbom });
                    }
                }
            }
        }
        v
    } else {
        vec![
            ResSpec { md: 0, env: None, execd: 0, sbom: 0 },
            ResSpec { md: 1, env: Some(1), execd: 1, sbom: 1 },
            ResSpec { md: 0, env: Some(3), execd: 0, sbom: 2 },
            ResSpec { md: 1, env: Some(2), execd: 1, sbom: 0 },
            ResSpec { md: 0, env: Some(1), execd: 0, sbom: 0 },
            ResSpec { md: 1, env: None, execd: 1, sbom: 1 },
            ResSpec { md: 2, env: Some(2), execd: 0, sbom: 0 },
        ]
    }
}

pub trait Meta2: MetaProbe + Clone {
    fn variant(k: u8) -> Self;
}
impl Meta2 for V1 {
    fn variant(k: u8) -> Self {
        serde_json::from_value(json!({"version": if k == 1 { "2" } else { "1" }})).unwrap()
    }
}
impl Meta2 for GenericMetadata {
    fn variant(k: u8) -> Self {
        let v: toml::Value = match k {
            0 => toml::toml! { version = "1" }.into(),
            1 => toml::toml! { legacy = 1 }.into(),
            // parses as V1 but carries a key V1 does not declare
            _ => toml::toml! { version = "1" checksum = "abc" }.into(),
        };
        v.as_table().cloned()
    }
}
fn md_value(m: MKind, k: u8) -> Option<toml::Value> {
    match m {
        MKind::V1 => V1::variant(k).as_value(),
        MKind::Generic => GenericMetadata::variant(k).as_value(),
    }
}

#[derive(Debug, Clone, PartialEq)]
pub enum Call {
    Create { dir_empty: bool, path_ok: bool },
    Strategy { md: Option<toml::Value>, data_ok: Result<(), String> },
    Update { md: Option<toml::Value>, data_ok: Result<(), String> },
    Migrate { md: Option<toml::Value> },
    Unexpected(String),
}

struct Script<M> {
    n: usize,
    types: (bool, bool, bool),
    strategy: Option<Strat>,
    migration: Option<Mig>,
    strategy2: Option<Strat>,
    create: Option<Ret>,
    update: Option<Ret>,
    results: Vec<ResSpec>,
    src: PathBuf,
    log: Rc<RefCell<Vec<Call>>>,
    migrated: bool,
    _m: std::marker::PhantomData<M>,
}

/// independent check that a LayerData equals the directory it describes
fn data_matches_disk<M: MetaProbe>(data: &LayerData<M>, layers_dir: &Path, name: &str) -> Result<(), String> {
    let snap = Snapshot::take(layers_dir).map_err(|e| e.to_string())?;
    let disk = abstract_layer(&snap, name);
    if data.name.as_str() != name {
        return Err(format!("name {} != {name}", data.name));
    }
    if data.path != layers_dir.join(name) {
        return Err(format!("path {:?}", data.path));
    }
    let t = data.content_metadata.types.map(|t| (t.launch, t.build, t.cache));
    if t != disk.types() {
        return Err(format!("types {:?} but disk has {:?}", t, disk.types()));
    }
    let md = data.content_metadata.metadata.as_value();
    let disk_md = disk.metadata();
    // typed metadata may legitimately drop undeclared keys; compare what the type can see
    let visible = |v: &Option<toml::Value>| -> Option<toml::Value> { v.clone().filter(|x| x.as_table().map(|t| !t.is_empty()).unwrap_or(true)) };
    if visible(&md) != visible(&disk_md) && md.as_ref().and_then(|m| m.get("version")) != disk_md.as_ref().and_then(|m| m.get("version")) {
        return Err(format!("metadata {md:?} but disk has {disk_md:?}"));
    }
    let abs = abs_env_of_files(&disk.env_files);
    for q in [Sc::All, Sc::Build, Sc::Launch, Sc::Process("web".into()), Sc::Process("web.worker".into()), Sc::Process("zz".into())] {
        for st in [PlainEnv::new(), [(b"A".to_vec(), b"x".to_vec())].into_iter().collect::<PlainEnv>(), [(b"PATH".to_vec(), b"/bin".to_vec()), (b"W".to_vec(), b"".to_vec())].into_iter().collect()] {
            let got = plain_of(&data.env.apply(q.real(), &real_plain(&st)));
            let mut want = ref_apply(&abs, &q, &st);
            // implicit layer paths (C10 semantics): <layer>/<sub> prepended when it is a directory
            for (var, sub) in implicit(&q) {
                if layers_dir.join(name).join(sub).is_dir() {
                    let dir = layers_dir.join(name).join(sub).into_os_string().into_encoded_bytes();
                    let key = var.as_bytes().to_vec();
                    let new = match want.get(&key) {
                        Some(old) if !old.is_empty() => [dir, b":".to_vec(), old.clone()].concat(),
                        _ => dir,
                    };
                    want.insert(key, new);
                }
            }
            if got != want {
                return Err(format!("env applied for {q:?} gives {got:?}, the directory's env files give {want:?}"));
            }
        }
    }
    Ok(())
}

impl<M: Meta2> Script<M> {
    fn result(&self, k: u8, layer_path: &Path, marker: &str) -> LayerResult<M> {
        let spec = self.results[k as usize];
        std::fs::write(layer_path.join(marker), marker.as_bytes()).unwrap();
        // a bin/ directory: the layer's env then has implicit PATH entries for build and launch
        std::fs::create_dir_all(layer_path.join("bin")).unwrap();
        std::fs::write(layer_path.join("bin").join(marker), b"tool").unwrap();
        let mut b = LayerResultBuilder::new(M::variant(spec.md));
        if let Some(e) = spec.env {
            b = b.env(real_env(&env_value(e)));
        }
        if spec.execd == 1 {
            b = b.exec_d_program("p1", self.src.join("p1"));
        }
        for (f, _, d) in sbom_value(spec.sbom) {
            b = b.sbom(Sbom::from_bytes(f, d));
        }
        b.build_unwrapped()
    }
}

impl<M: Meta2> Layer for Script<M> {
    type Buildpack = VB;
    type Metadata = M;
    fn types(&self) -> LayerTypes {
        LayerTypes { launch: self.types.0, build: self.types.1, cache: self.types.2 }
    }
    fn create(&mut self, ctx: &BuildContext<VB>, layer_path: &Path) -> Result<LayerResult<M>, VErr> {
        let dir_empty = std::fs::read_dir(layer_path).map(|mut d| d.next().is_none()).unwrap_or(false);
        self.log.borrow_mut().push(Call::Create { dir_empty, path_ok: layer_path == ctx.layers_dir.join(NAMES[self.n]) });
        match self.create {
            Some(Ret::Res(k)) => Ok(self.result(k, layer_path, "created")),
            Some(Ret::Err) => Err(VErr("create-err".into())),
            _ => {
                self.log.borrow_mut().push(Call::Unexpected("create invoked without a scheduled answer".into()));
                Err(VErr("unscheduled".into()))
            }
        }
    }
    fn existing_layer_strategy(&mut self, ctx: &BuildContext<VB>, data: &LayerData<M>) -> Result<ExistingLayerStrategy, VErr> {
        self.log.borrow_mut().push(Call::Strategy { md: data.content_metadata.metadata.as_value(), data_ok: data_matches_disk(data, &ctx.layers_dir, NAMES[self.n]) });
        let dec = if self.migrated { self.strategy2 } else { self.strategy };
        match dec {
            Some(Strat::Keep) => Ok(ExistingLayerStrategy::Keep),
            Some(Strat::Update) => Ok(ExistingLayerStrategy::Update),
            Some(Strat::Recreate) => Ok(ExistingLayerStrategy::Recreate),
            Some(Strat::Err) => Err(VErr("strategy-err".into())),
            None => {
                self.log.borrow_mut().push(Call::Unexpected("existing_layer_strategy invoked without a scheduled answer".into()));
                Ok(ExistingLayerStrategy::Keep)
            }
        }
    }
    fn update(&mut self, ctx: &BuildContext<VB>, data: &LayerData<M>) -> Result<LayerResult<M>, VErr> {
        self.log.borrow_mut().push(Call::Update { md: data.content_metadata.metadata.as_value(), data_ok: data_matches_disk(data, &ctx.layers_dir, NAMES[self.n]) });
        match self.update {
            Some(Ret::Res(k)) => Ok(self.result(k, &data.path, "updated")),
            Some(Ret::Err) => Err(VErr("update-err".into())),
            // the body of the trait's default implementation
            Some(Ret::DefaultImpl) => LayerResultBuilder::new(data.content_metadata.metadata.clone()).env(data.env.clone()).build(),
            None => {
                self.log.borrow_mut().push(Call::Unexpected("update invoked without a scheduled answer".into()));
                Err(VErr("unscheduled".into()))
            }
        }
    }
    fn migrate_incompatible_metadata(&mut self, _ctx: &BuildContext<VB>, md: &GenericMetadata) -> Result<MetadataMigration<M>, VErr> {
        self.log.borrow_mut().push(Call::Migrate { md: md.as_value() });
        let dec = if self.migrated { None } else { self.migration };
        match dec {
            Some(Mig::Recreate) => Ok(MetadataMigration::RecreateLayer),
            Some(Mig::Replace) => {
                self.migrated = true;
                Ok(MetadataMigration::ReplaceMetadata(M::replacement()))
            }
            Some(Mig::Err) => Err(VErr("migrate-err".into())),
            None => {
                self.log.borrow_mut().push(Call::Unexpected("migrate_incompatible_metadata invoked without a scheduled answer".into()));
                Ok(MetadataMigration::RecreateLayer)
            }
        }
    }
}

/// Same default as in c01: for the plain trait default `update` (not overridden) we use a
/// second layer type that does not override `update` at all.
struct ScriptNoUpdate<M>(Script<M>);
impl<M: Meta2> Layer for ScriptNoUpdate<M> {
    type Buildpack = VB;
    type Metadata = M;
    fn types(&self) -> LayerTypes {
        self.0.types()
    }
    fn create(&mut self, ctx: &BuildContext<VB>, p: &Path) -> Result<LayerResult<M>, VErr> {
        self.0.create(ctx, p)
    }
    fn existing_layer_strategy(&mut self, ctx: &BuildContext<VB>, d: &LayerData<M>) -> Result<ExistingLayerStrategy, VErr> {
        self.0.existing_layer_strategy(ctx, d)
    }
    fn migrate_incompatible_metadata(&mut self, ctx: &BuildContext<VB>, md: &GenericMetadata) -> Result<MetadataMigration<M>, VErr> {
        self.0.migrate_incompatible_metadata(ctx, md)
    }
}

#[derive(Debug, Clone, PartialEq)]
pub enum Out {
    Ok { data_ok: Result<(), String> },
    BpErr(String),
    OtherErr(String),
}

fn run_handle<M: Meta2 + 'static>(ctx: &BuildContext<VB>, src: &Path, op: &Op, results: &[ResSpec]) -> (Out, Vec<Call>) {
    let Op::Handle { n, types, strategy, migration, strategy2, create, update, .. } = op else { unreachable!() };
    let log = Rc::new(RefCell::new(Vec::new()));
    let script = Script::<M> { n: *n, types: types_of(*types), strategy: *strategy, migration: *migration, strategy2: *strategy2, create: *create, update: *update, results: results.to_vec(), src: src.to_path_buf(), log: log.clone(), migrated: false, _m: Default::default() };
    let name: LayerName = NAMES[*n].parse().unwrap();
    let r = if *update == Some(Ret::DefaultImpl) { ctx.handle_layer(name, ScriptNoUpdate(script)) } else { ctx.handle_layer(name, script) };
    let out = match r {
        Ok(data) => Out::Ok { data_ok: data_matches_disk(&data, &ctx.layers_dir, NAMES[*n]) },
        Err(libcnb::Error::BuildpackError(e)) => Out::BpErr(e.0),
        Err(e) => Out::OtherErr(format!("{e:?}")),
    };
    let l = log.borrow().clone();
    (out, l)
}

// ---------------- reference model (A.2) ----------------

#[derive(Debug, Clone, PartialEq)]
pub enum PredLayer {
    Kept,
    /// the layer equals the callback's result; `base_files` = files expected besides the marker
    FromResult { ret: Ret, updated: bool },
    Unspecified,
}
#[derive(Debug)]
pub struct Pred {
    calls: Vec<&'static str>,
    mds: Vec<Option<toml::Value>>,
    out: Result<(), &'static str>,
    layer: PredLayer,
    /// metadata after a Replace migration (visible in Kept / DefaultImpl)
    md_after: Option<toml::Value>,
}

pub fn predict(pre: &LayerAbs, op: &Op) -> Pred {
    let Op::Handle { m, strategy, migration, strategy2, create, update, .. } = op else { unreachable!() };
    let mut calls = Vec::new();
    let mut mds = Vec::new();
    let create_flow = |mut calls: Vec<&'static str>, mds: Vec<Option<toml::Value>>| {
        calls.push("create");
        match create.expect("create scheduled") {
            Ret::Err => Pred { calls, mds, out: Err("create-err"), layer: PredLayer::Unspecified, md_after: None },
            r => Pred { calls, mds, out: Ok(()), layer: PredLayer::FromResult { ret: r, updated: false }, md_after: None },
        }
    };
    if !pre.dir {
        return create_flow(calls, mds);
    }
    let mut md = pre.metadata();
    let mut migrated = false;
    loop {
        if parses(&md, *m) {
            calls.push("strategy");
            mds.push(seen(&md, *m));
            let dec = if migrated { *strategy2 } else { *strategy };
            return match dec.expect("strategy scheduled") {
                Strat::Keep => Pred { calls, mds, out: Ok(()), layer: PredLayer::Kept, md_after: md },
                Strat::Err => Pred { calls, mds, out: Err("strategy-err"), layer: PredLayer::Unspecified, md_after: md },
                Strat::Recreate => create_flow(calls, mds),
                Strat::Update => {
                    // the trait's default `update` cannot log itself
                    if *update != Some(Ret::DefaultImpl) {
                        calls.push("update");
                        mds.push(seen(&md, *m));
                    }
                    match update.expect("update scheduled") {
                        Ret::Err => Pred { calls, mds, out: Err("update-err"), layer: PredLayer::Unspecified, md_after: md },
                        r => Pred { calls, mds, out: Ok(()), layer: PredLayer::FromResult { ret: r, updated: true }, md_after: md },
                    }
                }
            };
        }
        calls.push("migrate");
        mds.push(md.clone());
        match migration.expect("migration scheduled") {
            Mig::Err => return Pred { calls, mds, out: Err("migrate-err"), layer: PredLayer::Unspecified, md_after: md },
            Mig::Recreate => return create_flow(calls, mds),
            Mig::Replace => {
                md = Some(toml::toml! { version = "9" }.into());
                migrated = true;
            }
        }
    }
}

fn seen(md: &Option<toml::Value>, m: MKind) -> Option<toml::Value> {
    match m {
        MKind::Generic => md.clone(),
        MKind::V1 => md.as_ref().and_then(|v| v.get("version")).map(|ver| {
            let mut t = toml::Table::new();
            t.insert("version".into(), ver.clone());
            toml::Value::Table(t)
        }),
    }
}

fn norm_md(m: &Option<toml::Value>) -> Option<toml::Value> {
    match m {
        Some(toml::Value::Table(t)) if t.is_empty() => None,
        other => other.clone(),
    }
}

pub fn enabled_ops(snap: &Snapshot, nres: usize) -> Vec<Op> {
    let mut out = Vec::new();
    let rets: Vec<Ret> = (0..nres as u8).map(Ret::Res).chain([Ret::Err]).collect();
    let mut upd = rets.clone();
    upd.push(Ret::DefaultImpl);
    for n in 0..NAMES.len() {
        let pre = abstract_layer(snap, NAMES[n]);
        for types in 0..4u8 {
            for m in [MKind::Generic, MKind::V1] {
                let base = |strategy, migration, strategy2, create, update| Op::Handle { n, types, m, strategy, migration, strategy2, create, update };
                let strat_flows = |out: &mut Vec<Op>, mig: Option<Mig>| {
                    let s = |x: Strat| if mig.is_some() { (None, Some(x)) } else { (Some(x), None) };
                    let (a, b) = s(Strat::Keep);
                    out.push(base(a, mig, b, None, None));
                    let (a, b) = s(Strat::Err);
                    out.push(base(a, mig, b, None, None));
                    for r in &rets {
                        let (a, b) = s(Strat::Recreate);
                        out.push(base(a, mig, b, Some(*r), None));
                    }
                    for r in &upd {
                        let (a, b) = s(Strat::Update);
                        out.push(base(a, mig, b, None, Some(*r)));
                    }
                };
                if !pre.dir {
                    for r in &rets {
                        out.push(base(None, None, None, Some(*r), None));
                    }
                } else if parses(&pre.metadata(), m) {
                    strat_flows(&mut out, None);
                } else {
                    out.push(base(None, Some(Mig::Err), None, None, None));
                    for r in &rets {
                        out.push(base(None, Some(Mig::Recreate), None, Some(*r), None));
                    }
                    strat_flows(&mut out, Some(Mig::Replace));
                }
            }
        }
    }
    out.push(Op::Restore);
    out.push(Op::RestoreSboms);
    out
}

#[derive(Clone, Debug, Hash, PartialEq)]
pub struct St {
    pub snap: Snapshot,
    pub bad: Option<(String, String)>,
}

pub fn step(snap: &Snapshot, op: &Op, results: &[ResSpec], verbose: bool) -> St {
    if *op == Op::Restore {
        return St { snap: restore(snap), bad: None };
    }
    if *op == Op::RestoreSboms {
        return St { snap: restore_sboms(snap), bad: None };
    }
    let Op::Handle { n, types, m, .. } = op else { unreachable!() };
    let sc = Scratch::new("c02");
    let ctx = mk_context(&sc.path);
    snap.materialise(&ctx.layers_dir).expect("materialise");
    let src = sc.path.join("src");
    std::fs::create_dir_all(&src).unwrap();
    std::fs::write(src.join("p1"), src_content("p1")).unwrap();
    {
        use std::os::unix::fs::PermissionsExt;
        std::fs::set_permissions(src.join("p1"), std::fs::Permissions::from_mode(0o755)).unwrap();
    }
    let (out, log) = match m {
        MKind::Generic => run_handle::<GenericMetadata>(&ctx, &src, op, results),
        MKind::V1 => run_handle::<V1>(&ctx, &src, op, results),
    };
    let after = Snapshot::take(&ctx.layers_dir).expect("snapshot");
    if verbose {
        println!("  {op:?}\n    -> {out:?}\n    callbacks {log:?}");
    }
    let pre = abstract_layer(snap, NAMES[*n]);
    let post = abstract_layer(&after, NAMES[*n]);
    let pred = predict(&pre, op);
    let mut bad: Option<(String, String)> = None;
    let ctxs = format!("{op:?} on [{}]", pre.describe());

    // callbacks: kind sequence, metadata arguments, LayerData arguments, create on empty dir
    let kinds: Vec<&'static str> = log.iter().map(|c| match c { Call::Create { .. } => "create", Call::Strategy { .. } => "strategy", Call::Update { .. } => "update", Call::Migrate { .. } => "migrate", Call::Unexpected(_) => "UNEXPECTED" }).collect();
    if kinds != pred.calls {
        let sig = if kinds.contains(&"UNEXPECTED") || kinds.len() > pred.calls.len() { "callback-not-due" } else { "callback-missing" };
        bad = Some((sig.into(), format!("{ctxs}: callbacks invoked {kinds:?}, prescribed {:?}", pred.calls)));
    }
    if bad.is_none() {
        let mut mdi = 0;
        for c in &log {
            match c {
                Call::Create { dir_empty, path_ok } => {
                    if !dir_empty || !path_ok {
                        bad = Some(("create-on-non-empty-dir".into(), format!("{ctxs}: create was called with dir_empty={dir_empty} path_ok={path_ok}")));
                    }
                }
                Call::Strategy { md, data_ok } | Call::Update { md, data_ok } => {
                    if norm_md(md) != norm_md(&pred.mds[mdi]) {
                        bad = Some(("callback-arguments".into(), format!("{ctxs}: callback got metadata {md:?}, expected {:?}", pred.mds[mdi])));
                    } else if let Err(e) = data_ok {
                        bad = Some(("callback-layer-data".into(), format!("{ctxs}: LayerData handed to the callback differs from the directory: {e}")));
                    }
                    mdi += 1;
                }
                Call::Migrate { md } => {
                    if norm_md(md) != norm_md(&pred.mds[mdi]) {
                        bad = Some(("callback-arguments".into(), format!("{ctxs}: migrate got metadata {md:?}, expected {:?}", pred.mds[mdi])));
                    }
                    mdi += 1;
                }
                Call::Unexpected(_) => {}
            }
            if bad.is_some() {
                break;
            }
        }
    }
    // result
    if bad.is_none() {
        match (&out, &pred.out) {
            (Out::Ok { data_ok }, Ok(())) => {
                if let Err(e) = data_ok {
                    bad = Some(("returned-layer-data".into(), format!("{ctxs}: returned LayerData differs from the directory: {e}")));
                }
            }
            (Out::BpErr(e), Err(want)) if e == want => {}
            (got, want) => {
                let has_proc = post.env_files.keys().any(|k| k.starts_with(b"env.launch/") && k.iter().filter(|c| **c == b'/').count() == 2);
                let sig = if matches!(got, Out::OtherErr(_)) && has_proc { "layer-result-with-process-env".to_string() } else { format!("result:{}", if want.is_ok() { "ok-expected" } else { "error-expected" }) };
                bad = Some((sig, format!("{ctxs}: returned {got:?}, prescribed {want:?}")));
            }
        }
    }
    // on-disk layer
    if bad.is_none() {
        let want_types = Some(types_of(*types));
        let mut want = pre.clone();
        let mut judge = true;
        match &pred.layer {
            PredLayer::Unspecified => {
                judge = false;
                // a failed call leaves the layer unspecified, with one exception: once content of the
                // old layer has been deleted (Recreate / RecreateLayer under way), the old layer's
                // metadata and SBOM files must be gone with it - otherwise the next build is shown
                // valid-looking metadata for an emptied directory and may keep it
                let deleted: Vec<String> = pre.files.0.keys().filter(|k| !post.files.0.contains_key(*k)).map(|k| String::from_utf8_lossy(k).to_string()).collect();
                if deleted.is_empty() && post.toml.is_some() && post.types() != pre.types() {
                    // nothing was deleted (files and content metadata file still there), nothing was created or updated: the layer's declared types
                    // are still the ones it had (a refused migration or strategy decides nothing)
                    bad = Some(("failed-call-changed-types".into(), format!("{ctxs}: the call failed without replacing the layer, but its types on disk changed from {:?} to {:?}", pre.types(), post.types())));
                } else if !deleted.is_empty() && (post.toml.is_some() || !post.sboms.is_empty()) {
                    bad = Some(("failed-recreate-kept-metadata-of-deleted-content".into(), format!("{ctxs}: the call failed after deleting {deleted:?} of the old layer, but the layer still has [{}]", post.describe())));
                }
            }
            PredLayer::Kept => {
                if let Some(Ok(t)) = &mut want.toml {
                    t.types = want_types;
                    t.metadata = pred.md_after.clone();
                } else {
                    want.toml = Some(Ok(TomlAbs { types: want_types, metadata: pred.md_after.clone(), extra_keys: vec![] }));
                }
            }
            PredLayer::FromResult { ret, updated } => {
                let mut l = LayerAbs { dir: true, ..Default::default() };
                if *updated {
                    l.files = pre.files.clone();
                }
                match ret {
                    Ret::Res(k) => {
                        let spec = results[*k as usize];
                        l.toml = Some(Ok(TomlAbs { types: want_types, metadata: md_value(*m, spec.md), extra_keys: vec![] }));
                        l.env_files = spec.env.map(|e| env_files_of(&env_value(e))).unwrap_or_default();
                        if spec.execd == 1 {
                            l.execd.insert(b"p1".to_vec(), (true, src_content("p1")));
                        }
                        for (_, ext, d) in sbom_value(spec.sbom) {
                            l.sboms.insert(ext.to_string(), d);
                        }
                        let marker = if *updated { "updated" } else { "created" };
                        l.files.insert(marker, Node::file(marker.as_bytes()));
                        l.files.insert("bin", Node::dir());
                        l.files.insert(&format!("bin/{marker}"), Node::file(b"tool"));
                    }
                    Ret::DefaultImpl => {
                        // default update: same metadata, same env, no exec.d, no SBOMs
                        l.toml = Some(Ok(TomlAbs { types: want_types, metadata: seen(&pred.md_after, *m), extra_keys: vec![] }));
                        l.env_files = pre.env_files.clone();
                    }
                    Ret::Err => unreachable!(),
                }
                want = l;
            }
        }
        if judge {
            let mut p2 = post.clone();
            let mut w2 = want.clone();
            // absent metadata table == empty one
            for x in [&mut p2, &mut w2] {
                if let Some(Ok(t)) = &mut x.toml {
                    t.metadata = norm_md(&t.metadata);
                }
            }
            if p2 != w2 {
                let sig = if p2.toml != w2.toml {
                    if post.types() != want.types() { "wrong-types" } else { "wrong-metadata" }
                } else if p2.env_files != w2.env_files {
                    "wrong-env"
                } else if p2.execd != w2.execd {
                    "wrong-execd"
                } else if p2.sboms != w2.sboms {
                    "wrong-sboms"
                } else {
                    "wrong-files"
                };
                bad = Some((sig.into(), format!("{ctxs}: layer on disk is [{}], prescribed [{}]", post.describe(), want.describe())));
            }
        }
    }
    // other layers
    if bad.is_none() {
        for (i, name) in NAMES.iter().enumerate() {
            if i != *n && layer_raw(snap, name) != layer_raw(&after, name) {
                bad = Some(("other-layer-touched".into(), format!("{ctxs} changed layer {name}")));
            }
        }
    }
    St { snap: after, bad }
}

pub struct M {
    inits: Vec<St>,
    results: Vec<ResSpec>,
}

impl Model for M {
    type State = St;
    type Action = Op;
    fn init_states(&self) -> Vec<St> {
        self.inits.clone()
    }
    fn actions(&self, s: &St, out: &mut Vec<Op>) {
        if s.bad.is_none() {
            out.extend(enabled_ops(&s.snap, self.results.len()));
        }
    }
    fn next_state(&self, s: &St, a: Op) -> Option<St> {
        Some(step(&s.snap, &a, &self.results, false))
    }
    fn properties(&self) -> Vec<Property<Self>> {
        vec![Property::always("implementation == reference trait-layer model", |_, s: &St| s.bad.is_none())]
    }
}

fn seed_ops() -> Vec<(&'static str, Vec<Op>)> {
    let h = |n, types, m, create| Op::Handle { n, types, m, strategy: None, migration: None, strategy2: None, create: Some(Ret::Res(create)), update: None };
    vec![
        ("empty", vec![]),
        ("rich cached a (first build)", vec![h(0, 0, MKind::Generic, 1)]),
        ("rich cached a, restored", vec![h(0, 0, MKind::Generic, 1), Op::Restore]),
        ("rich cached a + launch-only b, restored", vec![h(0, 1, MKind::V1, 1), h(1, 2, MKind::Generic, 3), Op::Restore]),
        ("cached a with legacy metadata, restored", vec![h(0, 0, MKind::Generic, 5), Op::Restore]),
        // the lifecycle brings a launch-only layer's toml AND its SBOM files back, not its directory
        ("launch-only b with an SBOM, restored", vec![h(1, 2, MKind::Generic, 1), Op::RestoreSboms]),
    ]
}

pub fn run(args: &Args) {
    let mut rep = Reporter::new("C02", "model_checking", args);
    if let Some(path) = &args.replay {
        replay(path, &mut rep);
        rep.finish();
    }
    let mut total_states = 0u64;
    let mut total_tr = 0u64;
    let mut capped = None;
    let mut sigs = BTreeSet::new();
    // phase A: reduced result alphabet, deeper; phase B (thorough): full result product, depth 2
    let phases: Vec<(bool, usize)> = if args.thorough() { vec![(false, 3), (true, 2)] } else { vec![(false, 2)] };
    for (full, depth) in phases {
        let results = res_alphabet(full);
        let mut inits = Vec::new();
        for (label, ops) in seed_ops() {
            let mut st = St { snap: Snapshot::new(), bad: None };
            let mut hist = Vec::new();
            for op in &ops {
                st = step(&st.snap, op, &res_alphabet(false), false);
                hist.push(op.clone());
                if let Some((sig, what)) = &st.bad {
                    sigs.insert(sig.clone());
                    rep.violation(sig, what.clone(), json!({"start": [], "ops": hist, "full_results": false, "seed": label}));
                    break;
                }
            }
            if st.bad.is_none() {
                inits.push(st);
            }
        }
        let n_inits = inits.len() as u64;
        let m = M { inits, results: results.clone() };
        let r = bfs_levels(&m, &BfsOpts { max_depth: depth, max_transitions: 30_000_000, max_wall: std::time::Duration::from_secs(if args.thorough() { 900 } else { 100 }), ..Default::default() });
        for cx in &r.violations {
            let (sig, what) = cx.state.bad.clone().unwrap();
            sigs.insert(sig.clone());
            rep.violation(&sig, what, json!({"path_from_seed": cx.path, "full_results": full, "note": "replay: ops below are appended to the seed whose index is given", "ops": cx.path, "seed_index": "see path; replay tries every seed"}));
        }
        total_states += r.states;
        total_tr += r.transitions;
        rep.cov(if full { "phase_full_results" } else { "phase_reduced_results" }, json!({"depth": depth, "results": results.len(), "states": r.states, "transitions": r.transitions, "per_level": r.per_level, "seeds": n_inits}));
        rep.sample(json!({"deepest_path": r.deepest_path}));
        if capped.is_none() {
            capped = r.cap_hit.clone();
        }
    }
    rep.cov("states", total_states);
    rep.cov("transitions", total_tr);
    rep.cov("traces_validated_against_impl", total_tr);
    rep.cov("evaluations", total_tr);
    rep.cov("distinct_nontrivial", total_states.saturating_sub(5));
    rep.cov("max_depth", if args.thorough() { 3 } else { 2 });
    rep.cov("rule", "transitions = real handle_layer executions (scripted Layer impl) from distinct layers-dir snapshots, BFS from 5 seeded states built by real handle_layer calls; each judged for callbacks invoked (kind, order, count, arguments incl. LayerData vs disk, create on empty dir), result, on-disk layer vs callback result / kept state, returned LayerData vs an independent read, other layer untouched; distinct_nontrivial = distinct non-seed states");
    rep.cov("bound", json!({"names": NAMES, "types": "4 (cache+build, cache+launch, launch-only, build-only)", "metadata types": ["Generic", "V1"], "strategy": "Keep/Update/Recreate/Err", "migration": "Recreate/Replace->strategy/Err", "create/update": "result alphabet + Err (+ trait default update)", "result alphabet": "7 representative (reduced) / 48 = 2 metadata x 4 env (None, all scopes incl. processes, build+launch+delim, process only) x 2 exec.d x 3 sbom sets (none, cdx, spdx+syft) (full)"}));
    rep.cov("exhaustive", capped.is_none());
    if let Some(c) = capped {
        rep.cov("cap_hit", c);
    }
    rep.sample(json!({"seed": seed_ops()[3].0, "ops": seed_ops()[3].1}));
    rep.assume("simulated lifecycle restore as in C01 (both variants: launch-only layers come back as their toml only, or as toml + SBOM files)");
    rep.assume("handle_layer's behaviour is a function of the layers directory and the Layer implementation (state = directory snapshot)");
    rep.finish();
}

pub fn replay(path: &str, rep: &mut Reporter) {
    let doc: serde_json::Value = serde_json::from_str(&std::fs::read_to_string(path).expect("replay file")).expect("json");
    let r = &doc["replay"];
    let ops: Vec<Op> = serde_json::from_value(r["ops"].clone()).expect("ops");
    let full = r["full_results"].as_bool().unwrap_or(false);
    let results = res_alphabet(full);
    let seeds: Vec<Vec<Op>> = if r.get("start").is_some() { vec![vec![]] } else { seed_ops().into_iter().map(|s| s.1).collect() };
    for seed in seeds {
        println!("--- seed {seed:?}");
        let mut st = St { snap: Snapshot::new(), bad: None };
        for op in &seed {
            st = step(&st.snap, op, &res_alphabet(false), false);
        }
        let mut applicable = true;
        for op in &ops {
            if !enabled_ops(&st.snap, results.len()).contains(op) {
                println!("  (operation {op:?} not enabled from this seed)");
                applicable = false;
                break;
            }
            st = step(&st.snap, op, &results, true);
            if let Some((sig, what)) = &st.bad {
                println!("DIFFERENCE: {what}");
                rep.violation(sig, what.clone(), json!({}));
                return;
            }
        }
        if applicable {
            println!("  agrees with the reference model; final dir {}", st.snap.to_json());
        }
    }
}
