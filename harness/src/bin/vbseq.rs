//! In-process *sequences* of detect/build invocations through libcnb's programmatic entry points
//! (`libcnb_runtime_detect` / `libcnb_runtime_build`, "exposed to allow for advanced use-cases
//! where detect/build is programmatically invoked"). One process runs the whole list of steps; the
//! orchestrator (checks/c06.py) compares every step with the same step run alone in a fresh
//! process, so anything one invocation leaves behind *in the process* (caches, statics, cwd, env)
//! and that leaks into the next context shows up as a difference.
//!
//! usage: vbseq <steps.json>   steps = [{phase, cwd, env{}, args[], writes[[path, content|null]], collect[path]}]
use serde::Deserialize;
use serde_json::json;
use std::collections::BTreeMap;
use std::path::PathBuf;
use vh::layermodel::VB;

#[derive(Deserialize)]
struct Step {
    phase: String,
    cwd: String,
    env: BTreeMap<String, String>,
    args: Vec<String>,
    #[serde(default)]
    writes: Vec<(String, Option<String>)>,
    #[serde(default)]
    collect: Vec<String>,
}

fn main() {
    let path = std::env::args().nth(1).expect("steps file");
    let steps: Vec<Step> = serde_json::from_str(&std::fs::read_to_string(path).expect("steps readable")).expect("steps json");
    let mut out = Vec::new();
    for s in steps {
        for (p, c) in &s.writes {
            match c {
                Some(c) => std::fs::write(p, c).expect("prepare write"),
                None => {
                    let _ = std::fs::remove_file(p);
                }
            }
        }
        let stale: Vec<_> = std::env::vars_os().map(|(k, _)| k).filter(|k| k.to_string_lossy().starts_with("CNB_") || k.to_string_lossy().starts_with("VB_")).collect();
        for k in stale {
            unsafe { std::env::remove_var(k) };
        }
        for (k, v) in &s.env {
            unsafe { std::env::set_var(k, v) };
        }
        std::env::set_current_dir(&s.cwd).expect("cwd");
        let r = match s.phase.as_str() {
            "detect" => libcnb::libcnb_runtime_detect(&VB, libcnb::DetectArgs { platform_dir_path: PathBuf::from(&s.args[0]), build_plan_path: PathBuf::from(&s.args[1]) }),
            _ => libcnb::libcnb_runtime_build(&VB, libcnb::BuildArgs { layers_dir_path: PathBuf::from(&s.args[0]), platform_dir_path: PathBuf::from(&s.args[1]), buildpack_plan_path: PathBuf::from(&s.args[2]) }),
        };
        let collected: BTreeMap<String, Option<String>> = s.collect.iter().map(|p| (p.clone(), std::fs::read(p).ok().map(|b| vh::vbscript::hex(&b)))).collect();
        out.push(match r {
            Ok(code) => json!({"ok": true, "code": code, "files": collected}),
            Err(e) => json!({"ok": false, "error": format!("{e:?}").chars().take(300).collect::<String>(), "files": collected}),
        });
    }
    println!("{}", serde_json::to_string(&out).unwrap());
}
