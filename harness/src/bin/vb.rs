//! The verification buildpack executable: the real libcnb runtime around the scripted buildpack.
use vh::layermodel::VB;
libcnb::buildpack_main!(VB);
