//! Runs ONE libcnb-test scenario (JSON) in-process against the stand-in docker/pack CLIs and
//! prints the outcome. The orchestrators (checks/c16.py, checks/c17.py) enumerate scenarios,
//! inject faults and judge the argv log. usage: testrunner-mc <scenario.json>
//!
//! scenario = {"root": Build, "panic_at": k|null}
//! Build    = {"cfg": {...}, "body": [Step]}
//! Step     = {"op": "container", "cfg": {...}, "body": [CStep]} | {"op":"shell"} | {"op":"sbom"} | {"op":"rebuild", "cfg":..., "body":[Step]}
//! CStep    = {"op": "logs_now"|"logs_wait"|"port"|"exec"}
//! `panic_at` = index (pre-order over all steps) of the step BEFORE which the closure panics.
use libcnb_test::{BuildConfig, BuildpackReference, ContainerConfig, ContainerContext, PackResult, TestContext, TestRunner};
use serde_json::{Value, json};
use std::cell::Cell;
use std::path::PathBuf;

thread_local! {
    static STEP: Cell<i64> = const { Cell::new(0) };
    static PANIC_AT: Cell<i64> = const { Cell::new(-1) };
}

fn tick() {
    let s = STEP.with(|c| {
        let v = c.get();
        c.set(v + 1);
        v
    });
    if PANIC_AT.with(|p| p.get()) == s {
        panic!("scripted panic before step {s}");
    }
}

fn build_config(c: &Value) -> BuildConfig {
    let mut b = BuildConfig::new(c["builder"].as_str().unwrap_or("builder:x"), c["app_dir"].as_str().unwrap_or("fixture"));
    // a buildpack reference is a string (Other), {"current": true} or {"workspace": "<id>"}
    let bps: Vec<BuildpackReference> = c["buildpacks"]
        .as_array()
        .map(|a| {
            a.iter()
                .map(|x| {
                    if let Some(s) = x.as_str() {
                        BuildpackReference::Other(s.to_string())
                    } else if let Some(id) = x["workspace"].as_str() {
                        BuildpackReference::WorkspaceBuildpack(id.parse().unwrap())
                    } else {
                        BuildpackReference::CurrentCrate
                    }
                })
                .collect()
        })
        .unwrap_or_else(|| vec![BuildpackReference::Other("some/bp".into())]);
    b.buildpacks(bps);
    if let Some(t) = c["target_triple"].as_str() {
        b.target_triple(t);
    }
    if let Some(env) = c["env"].as_array() {
        // the first pair through env(), all later ones through one envs() call (a key set again gets the later value)
        if let Some(kv) = env.first() {
            b.env(kv[0].as_str().unwrap(), kv[1].as_str().unwrap());
        }
        b.envs(env.iter().skip(1).map(|kv| (kv[0].as_str().unwrap().to_string(), kv[1].as_str().unwrap().to_string())).collect::<Vec<_>>());
    }
    if c["expected"].as_str() == Some("failure") {
        b.expected_pack_result(PackResult::Failure);
    }
    // preprocessor: true / "A" (adds a file, rewrites file.txt) or "B" (another, distinguishable one)
    if c["preprocessor"].as_bool() == Some(true) || c["preprocessor"].as_str() == Some("A") {
        b.app_dir_preprocessor(|dir: PathBuf| {
            std::fs::write(dir.join("added-by-preprocessor"), "x").unwrap();
            std::fs::write(dir.join("file.txt"), "changed").unwrap();
        });
    } else if c["preprocessor"].as_str() == Some("B") {
        b.app_dir_preprocessor(|dir: PathBuf| {
            std::fs::write(dir.join("added-by-B"), "y").unwrap();
            std::fs::write(dir.join("file.txt"), "changed-by-B").unwrap();
        });
    }
    b
}

fn container_config(c: &Value) -> ContainerConfig {
    let mut cc = ContainerConfig::new();
    if let Some(e) = c["entrypoint"].as_str() {
        cc.entrypoint(e);
    }
    if let Some(cmd) = c["command"].as_array() {
        cc.command(cmd.iter().map(|x| x.as_str().unwrap().to_string()).collect::<Vec<_>>());
    }
    if let Some(env) = c["env"].as_array() {
        if let Some(kv) = env.first() {
            cc.env(kv[0].as_str().unwrap(), kv[1].as_str().unwrap());
        }
        cc.envs(env.iter().skip(1).map(|kv| (kv[0].as_str().unwrap().to_string(), kv[1].as_str().unwrap().to_string())).collect::<Vec<_>>());
    }
    if let Some(p) = c["ports"].as_array() {
        for x in p {
            cc.expose_port(x.as_u64().unwrap() as u16);
        }
    }
    if let Some(m) = c["mounts"].as_array() {
        for kv in m {
            cc.bind_mount(kv[0].as_str().unwrap(), kv[1].as_str().unwrap());
        }
    }
    cc
}

fn run_container_body(ctx: &ContainerContext, cfg: &Value, body: &[Value]) {
    for st in body {
        tick();
        match st["op"].as_str().unwrap() {
            "logs_now" => {
                let _ = ctx.logs_now();
            }
            "logs_wait" => {
                let _ = ctx.logs_wait();
            }
            "port" => {
                let port = cfg["ports"].as_array().and_then(|p| p.first()).and_then(|x| x.as_u64()).unwrap_or(8080) as u16;
                let _ = ctx.address_for_port(port);
            }
            _ => {
                let _ = ctx.shell_exec("echo hi");
            }
        }
    }
    tick();
}

fn run_body(ctx: TestContext, body: &[Value]) {
    let mut ctx = Some(ctx);
    for st in body {
        tick();
        match st["op"].as_str().unwrap() {
            "container" => {
                let mut ccfg = st["cfg"].clone();
                if ccfg.is_null() {
                    ccfg = json!({"ports": [8080]});
                }
                let cbody = st["body"].as_array().cloned().unwrap_or_default();
                ctx.as_ref().unwrap().start_container(container_config(&ccfg), |c| run_container_body(&c, &ccfg, &cbody));
            }
            "shell" => {
                let _ = ctx.as_ref().unwrap().run_shell_command("echo hi");
            }
            "sbom" => {
                ctx.as_ref().unwrap().download_sbom_files(|_files| ());
            }
            "rebuild" => {
                let body = st["body"].as_array().cloned().unwrap_or_default();
                ctx.take().unwrap().rebuild(build_config(&st["cfg"]), |c| run_body(c, &body));
                return;
            }
            other => panic!("unknown step {other}"),
        }
    }
    tick();
}

fn main() {
    let path = std::env::args().nth(1).expect("scenario file");
    let sc: Value = serde_json::from_str(&std::fs::read_to_string(path).unwrap()).unwrap();
    // The scenario runs on a thread named like a (long) test function, as under the Rust test
    // harness: anything derived from the thread name must not make resource names collide.
    let name = sc["thread_name"].as_str().unwrap_or("tests::a_rather_long_integration_test_name_that_describes_the_scenario_in_great_detail_0123456789").to_string();
    let handle = std::thread::Builder::new().name(name).spawn(move || run(sc)).expect("spawn scenario thread");
    let outcome = handle.join().unwrap_or_else(|_| json!({"outcome": "panic", "message": "scenario thread panicked outside catch_unwind"}));
    println!("{outcome}");
}

fn run(sc: Value) -> Value {
    PANIC_AT.with(|p| p.set(sc["panic_at"].as_i64().unwrap_or(-1)));
    // one root build, or several in the same process ("roots"): the outcome reported is the last one's;
    // a panic of an earlier root is caught like the test harness does for separate #[test]s
    let roots: Vec<Value> = match sc["roots"].as_array() {
        Some(r) => r.clone(),
        None => vec![sc["root"].clone()],
    };
    let mut outcome = json!({"outcome": "ok"});
    let mut outcomes = Vec::new();
    for root in roots {
        let r = std::panic::catch_unwind(std::panic::AssertUnwindSafe(|| {
            let body = root["body"].as_array().cloned().unwrap_or_default();
            TestRunner::default().build(build_config(&root["cfg"]), |ctx| run_body(ctx, &body));
        }));
        outcome = match r {
            Ok(()) => json!({"outcome": "ok"}),
            Err(e) => {
                let msg = e.downcast_ref::<String>().cloned().or_else(|| e.downcast_ref::<&str>().map(|s| s.to_string())).unwrap_or_default();
                json!({"outcome": "panic", "message": msg.chars().take(300).collect::<String>()})
            }
        };
        outcomes.push(outcome["outcome"].clone());
    }
    outcome["outcomes"] = json!(outcomes);
    outcome
}
