//! C19 — child output streaming and the writers.
//! (a) writers: every byte string over {marker, a, b} up to a length bound x every chunking into
//!     write calls through the real MappedWrite / TeeWrite; final content must be chunk-independent
//!     and equal to the reference.
//! (b) pipe system: `PipeModel` (DESIGN A.5) is explored exhaustively as a stateright model (PAR
//!     must be deadlock-free and lossless; the sequential variants must exhibit the deadlock), and
//!     is then used as the controller that drives the REAL `output_and_write_streams` through every
//!     maximal schedule of environment actions (token to the scripted child, grant to a gated sink).
use libherokubuildpack::command::CommandExt;
use libherokubuildpack::write::{mapped, tee};
use rayon::prelude::*;
use serde_json::json;
use stateright::{Model, Property};
use std::collections::BTreeSet;
use std::io::Write;
use std::process::Command;
use std::sync::mpsc::{Receiver, RecvTimeoutError, Sender, channel};
use std::sync::{Arc, Mutex};
use std::time::Duration;
use vh::engine::{BfsOpts, bfs_levels};
use vh::report::{Args, Reporter};
use vh::snapshot::Scratch;

// ------------------------------------------------------------------ (a) writers

const M: u8 = b'm';

fn ref_mapped(input: &[u8], f: &dyn Fn(Vec<u8>) -> Vec<u8>) -> Vec<u8> {
    let mut out = Vec::new();
    let mut seg = Vec::new();
    for b in input {
        seg.push(*b);
        if *b == M {
            out.extend(f(std::mem::take(&mut seg)));
        }
    }
    if !seg.is_empty() {
        out.extend(f(seg));
    }
    out
}

fn mapping_fns() -> Vec<(&'static str, fn(Vec<u8>) -> Vec<u8>)> {
    fn ident(v: Vec<u8>) -> Vec<u8> {
        v
    }
    fn prefix(v: Vec<u8>) -> Vec<u8> {
        let mut o = vec![b'>'];
        o.extend(v);
        o
    }
    fn drop_marker(v: Vec<u8>) -> Vec<u8> {
        v.into_iter().filter(|b| *b != M).collect()
    }
    fn double(v: Vec<u8>) -> Vec<u8> {
        let mut o = v.clone();
        o.extend(v);
        o
    }
    vec![("identity", ident), ("add_prefix", prefix), ("drop_marker", drop_marker), ("double", double)]
}

struct FailAfter {
    left: usize,
    got: Vec<u8>,
}
impl Write for FailAfter {
    fn write(&mut self, buf: &[u8]) -> std::io::Result<usize> {
        if buf.len() > self.left {
            return Err(std::io::Error::other("target full"));
        }
        self.left -= buf.len();
        self.got.extend_from_slice(buf);
        Ok(buf.len())
    }
    fn flush(&mut self) -> std::io::Result<()> {
        Ok(())
    }
}

type Viol = (String, String, serde_json::Value);

/// a target that accepts at most `max` bytes per write call (a legal short write)
struct Shared {
    store: std::rc::Rc<std::cell::RefCell<Vec<u8>>>,
    max: usize,
}
impl Write for Shared {
    fn write(&mut self, buf: &[u8]) -> std::io::Result<usize> {
        let k = buf.len().min(self.max);
        self.store.borrow_mut().extend_from_slice(&buf[..k]);
        Ok(k)
    }
    fn flush(&mut self) -> std::io::Result<()> {
        Ok(())
    }
}
const SINK_KINDS: usize = 5;
const SINK_NAMES: [&str; 5] = ["accept-all", "<=1 byte per write", "<=2 bytes per write", "LineWriter(cap 2) over accept-all", "LineWriter(cap 2) over <=1 byte"];
fn mk_sink(kind: usize, store: std::rc::Rc<std::cell::RefCell<Vec<u8>>>) -> Box<dyn Write> {
    match kind {
        0 => Box::new(Shared { store, max: usize::MAX }),
        1 => Box::new(Shared { store, max: 1 }),
        2 => Box::new(Shared { store, max: 2 }),
        3 => Box::new(std::io::LineWriter::with_capacity(2, Shared { store, max: usize::MAX })),
        _ => Box::new(std::io::LineWriter::with_capacity(2, Shared { store, max: 1 })),
    }
}

/// returns (write calls executed, distinct (pos, inner content) states, violations)
fn writers_for(input: &[u8], with_empty_writes: bool, with_flushes: bool) -> (u64, u64, Vec<Viol>) {
    let n = input.len();
    let mut calls = 0u64;
    let mut states: BTreeSet<(usize, usize, Vec<u8>)> = BTreeSet::new();
    let mut viols = Vec::new();
    let cuts = if n == 0 { 1 } else { 1u32 << (n - 1) };
    for (fi, (fname, f)) in mapping_fns().into_iter().enumerate() {
        let want = ref_mapped(input, &f);
        for mask in 0..cuts {
            for finish in 0..2 {
                let mut inner: Vec<u8> = Vec::new();
                {
                    let mut w = mapped(&mut inner, M, f);
                    let mut start = 0;
                    for i in 0..n {
                        let cut = i + 1 == n || mask & (1 << i) != 0;
                        if cut {
                            if with_empty_writes {
                                w.write_all(&[]).unwrap();
                            }
                            w.write_all(&input[start..=i]).unwrap();
                            if with_flushes {
                                // a flush between write calls is not a segment boundary
                                w.flush().unwrap();
                            }
                            calls += 1;
                            start = i + 1;
                        }
                    }
                    if finish == 0 {
                        drop(w);
                    } else {
                        let _ = w.unwrap();
                    }
                }
                states.insert((fi, n, inner.clone()));
                if inner != want {
                    let rem_empty = input.last() == Some(&M) || input.is_empty();
                    let sig = if rem_empty && inner.len() > want.len() { "mapped:empty-remainder-mapped" } else { "mapped:content" };
                    viols.push((sig.to_string(), format!("MappedWrite({fname}) input {:?} chunk mask {mask:b}{} finished by {}: inner writer holds {:?}, expected {:?}", String::from_utf8_lossy(input), if with_flushes { " with a flush after every write" } else { "" }, if finish == 0 { "drop" } else { "unwrap" }, String::from_utf8_lossy(&inner), String::from_utf8_lossy(&want)), json!({"kind": "mapped", "input": input, "mask": mask, "fn": fname, "finish": finish, "flushes": with_flushes})));
                }
            }
        }
    }
    // the mapped writer over inner writers that accept only part of what a single write call offers
    // (every mapped segment must still arrive completely): strings of length <= 5
    if n <= 5 && !with_flushes && !with_empty_writes {
        for (fname, f) in mapping_fns().into_iter().take(2) {
            let want = ref_mapped(input, &f);
            for mask in 0..cuts {
                for kind in 1..SINK_KINDS {
                    let store = std::rc::Rc::new(std::cell::RefCell::new(Vec::new()));
                    {
                        let mut w = mapped(mk_sink(kind, store.clone()), M, f);
                        let mut start = 0;
                        for i in 0..n {
                            if i + 1 == n || mask & (1 << i) != 0 {
                                w.write_all(&input[start..=i]).unwrap();
                                calls += 1;
                                start = i + 1;
                            }
                        }
                        let mut inner = w.unwrap();
                        inner.flush().unwrap();
                    }
                    let got = store.borrow().clone();
                    if got != want {
                        viols.push(("mapped:content-short-inner-writer".to_string(), format!("MappedWrite({fname}) over an inner writer '{}' input {:?} chunk mask {mask:b}: inner writer holds {:?}, expected {:?}", SINK_NAMES[kind], String::from_utf8_lossy(input), String::from_utf8_lossy(&got), String::from_utf8_lossy(&want)), json!({"kind": "mapped", "input": input, "mask": mask, "fn": fname, "finish": 1, "flushes": false})));
                    }
                }
            }
        }
    }
    // the mapped writer over an inner writer that fails once (its k-th write call, k = 1..3, taking
    // nothing) and accepts everything afterwards: whatever is lost, the mapping function is only
    // ever handed ONE segment (at most one marker, at the end) - never two glued together
    if n <= 5 && !with_flushes && !with_empty_writes {
        thread_local! {
            static ARGS: std::cell::RefCell<Vec<Vec<u8>>> = const { std::cell::RefCell::new(Vec::new()) };
        }
        fn recording(v: Vec<u8>) -> Vec<u8> {
            ARGS.with(|a| a.borrow_mut().push(v.clone()));
            v
        }
        struct FailOnce {
            calls: usize,
            at: usize,
        }
        impl Write for FailOnce {
            fn write(&mut self, buf: &[u8]) -> std::io::Result<usize> {
                self.calls += 1;
                if self.calls == self.at {
                    return Err(std::io::Error::other("inner writer fails once"));
                }
                Ok(buf.len())
            }
            fn flush(&mut self) -> std::io::Result<()> {
                Ok(())
            }
        }
        for mask in 0..cuts {
            for at in 1..=3 {
                for finish in 0..2 {
                    ARGS.with(|a| a.borrow_mut().clear());
                    {
                        let mut w = mapped(FailOnce { calls: 0, at }, M, recording);
                        let mut start = 0;
                        for i in 0..n {
                            if i + 1 == n || mask & (1 << i) != 0 {
                                let _ = w.write_all(&input[start..=i]);
                                calls += 1;
                                start = i + 1;
                            }
                        }
                        if finish == 0 {
                            drop(w);
                        } else {
                            let _ = w.unwrap();
                        }
                    }
                    let args = ARGS.with(|a| a.borrow().clone());
                    if let Some(bad) = args.iter().find(|a| a.iter().filter(|b| **b == M).count() > 1 || (a.contains(&M) && a.last() != Some(&M))) {
                        viols.push(("mapped:segments-glued-after-inner-error".to_string(), format!("MappedWrite input {:?} chunk mask {mask:b}, inner writer failing at its call {at}: the mapping function was handed {:?}, which is not a single segment", String::from_utf8_lossy(input), String::from_utf8_lossy(bad)), json!({"kind": "mapped", "input": input, "mask": mask, "fn": "recording", "finish": finish, "flushes": false})));
                    }
                }
            }
        }
    }
    // tee: both targets get the full input for every chunking and every pair of target behaviours
    // (accepts everything, accepts at most 1 / 2 bytes per write call, line-buffered in front of
    // either); a failing target is reported. The marker stands for LF here (line-buffered targets).
    let tin: Vec<u8> = input.iter().map(|b| if *b == M { b'\n' } else { *b }).collect();
    for mask in 0..cuts {
        for ka in 0..SINK_KINDS {
            for kb in 0..SINK_KINDS {
                let a = std::rc::Rc::new(std::cell::RefCell::new(Vec::new()));
                let b = std::rc::Rc::new(std::cell::RefCell::new(Vec::new()));
                {
                    let mut t = tee(mk_sink(ka, a.clone()), mk_sink(kb, b.clone()));
                    let mut start = 0;
                    for i in 0..n {
                        if i + 1 == n || mask & (1 << i) != 0 {
                            t.write_all(&tin[start..=i]).unwrap();
                            calls += 1;
                            start = i + 1;
                        }
                    }
                    t.flush().unwrap();
                }
                let (a, b) = (a.borrow().clone(), b.borrow().clone());
                if a != tin || b != tin {
                    viols.push(("tee:content".into(), format!("TeeWrite input {:?} mask {mask:b} targets ({}, {}): targets hold {:?} / {:?}", String::from_utf8_lossy(&tin), SINK_NAMES[ka], SINK_NAMES[kb], String::from_utf8_lossy(&a), String::from_utf8_lossy(&b)), json!({"kind": "tee", "input": input, "mask": mask, "sinks": [ka, kb]})));
                }
            }
        }
    }
    for k in 0..n {
        for which in 0..2 {
            let mut ok = FailAfter { left: usize::MAX, got: vec![] };
            let mut bad = FailAfter { left: k, got: vec![] };
            let r = if which == 0 { tee(&mut bad, &mut ok).write_all(input) } else { tee(&mut ok, &mut bad).write_all(input) };
            calls += 1;
            if r.is_ok() {
                viols.push(("tee:error-swallowed".into(), format!("TeeWrite: target {which} fails after {k} bytes but writing {:?} reported success", String::from_utf8_lossy(input)), json!({"kind": "tee-fail", "input": input, "k": k, "which": which})));
            }
        }
    }
    // vectored writes through the tee (two non-empty slices cut at every position): whatever the
    // call reports as written has reached BOTH targets, also a second target that takes one byte per call
    if (2..=5).contains(&n) {
        for split in 1..n {
            for kb in 0..3 {
                let a = std::rc::Rc::new(std::cell::RefCell::new(Vec::new()));
                let b = std::rc::Rc::new(std::cell::RefCell::new(Vec::new()));
                let mut written = 0usize;
                {
                    let mut t = tee(mk_sink(0, a.clone()), mk_sink(kb, b.clone()));
                    // write_all_vectored by hand (the std helper is unstable): advance by the reported count
                    while written < n {
                        let (s1, s2) = if written < split { (&input[written..split], &input[split..]) } else { (&input[written..], &input[n..]) };
                        let bufs = [std::io::IoSlice::new(s1), std::io::IoSlice::new(s2)];
                        match t.write_vectored(&bufs) {
                            Ok(0) => break,
                            Ok(k) => written += k,
                            Err(_) => break,
                        }
                        calls += 1;
                    }
                    let _ = t.flush();
                }
                let (a, b) = (a.borrow().clone(), b.borrow().clone());
                if a != input[..written] || b != input[..written] {
                    viols.push(("tee:vectored-write-count".into(), format!("TeeWrite::write_vectored input {:?} split at {split}, second target '{}': {written} bytes reported as written, targets hold {:?} / {:?}", String::from_utf8_lossy(input), SINK_NAMES[kb], String::from_utf8_lossy(&a), String::from_utf8_lossy(&b)), json!({"kind": "tee", "input": input, "mask": split, "sinks": [0, kb]})));
                }
            }
        }
    }
    // a second target that fails once (its k-th call, taking nothing) and recovers: the failed
    // write call is reported; every LATER chunk written through the same tee reaches the first
    // target completely (a later chunk is new data, not a retry of the failed one)
    if (2..=5).contains(&n) {
        struct FailAt {
            calls: usize,
            at: usize,
            got: Vec<u8>,
        }
        impl Write for FailAt {
            fn write(&mut self, buf: &[u8]) -> std::io::Result<usize> {
                self.calls += 1;
                if self.calls == self.at {
                    return Err(std::io::Error::other("target fails once"));
                }
                self.got.extend_from_slice(buf);
                Ok(buf.len())
            }
            fn flush(&mut self) -> std::io::Result<()> {
                Ok(())
            }
        }
        for split in 1..n {
            for at in 1..=2 {
                let mut first = FailAt { calls: 0, at: usize::MAX, got: vec![] };
                let mut second = FailAt { calls: 0, at, got: vec![] };
                let (r1, r2) = {
                    let mut t = tee(&mut first, &mut second);
                    (t.write_all(&input[..split]), t.write_all(&input[split..]))
                };
                calls += 2;
                // what the first target must hold: the first chunk (it is written before the second
                // target is tried) and, whatever happened to the first call, the whole second chunk
                let tail_ok = first.got.ends_with(&input[split..]);
                if r2.is_ok() && !tail_ok {
                    viols.push(("tee:later-chunk-truncated-after-failure".into(), format!("TeeWrite: chunks {:?} then {:?}, second target failing at its call {at} (first call {:?}): the second write succeeded but the first target holds {:?}", String::from_utf8_lossy(&input[..split]), String::from_utf8_lossy(&input[split..]), r1.as_ref().map_err(|e| e.to_string()), String::from_utf8_lossy(&first.got)), json!({"kind": "tee-fail", "input": input, "k": split, "which": at})));
                }
            }
        }
    }
    (calls, states.len() as u64, viols)
}

/// a Send version of the short-writing targets, handed directly to the two command entry points
struct SharedS {
    store: std::sync::Arc<std::sync::Mutex<Vec<u8>>>,
    max: usize,
}
impl Write for SharedS {
    fn write(&mut self, buf: &[u8]) -> std::io::Result<usize> {
        let k = buf.len().min(self.max);
        self.store.lock().unwrap().extend_from_slice(&buf[..k]);
        Ok(k)
    }
    fn flush(&mut self) -> std::io::Result<()> {
        Ok(())
    }
}
fn mk_sink_s(kind: usize, store: std::sync::Arc<std::sync::Mutex<Vec<u8>>>) -> Box<dyn Write + Send> {
    match kind {
        0 => Box::new(SharedS { store, max: usize::MAX }),
        1 => Box::new(SharedS { store, max: 1 }),
        2 => Box::new(SharedS { store, max: 7 }),
        3 => Box::new(std::io::LineWriter::with_capacity(16, SharedS { store, max: usize::MAX })),
        _ => Box::new(std::io::LineWriter::with_capacity(16, SharedS { store, max: 3 })),
    }
}

/// both entry points (spawn_and_write_streams, output_and_write_streams) x every pair of target
/// behaviours x stream sizes: every byte the child wrote must reach the supplied writers (and the
/// returned Output), whatever a single write call of the target accepts
fn entry_points_with_short_writers() -> (u64, Vec<Viol>) {
    let payload = |n: usize, tag: u8| -> Vec<u8> { (0..n).map(|i| if i % 50 == 49 { b'\n' } else { tag + (i % 10) as u8 }).collect() };
    let mut viols = Vec::new();
    let mut runs = 0u64;
    let jobs: Vec<(usize, usize, usize, usize, usize)> = (0..2).flat_map(|e| (0..SINK_KINDS).flat_map(move |a| (0..SINK_KINDS).flat_map(move |b| [0usize, 36, 5000].into_iter().flat_map(move |no| [0usize, 7, 9000].into_iter().map(move |ne| (e, a, b, no, ne)))))).collect();
    let results: Vec<Option<Viol>> = jobs
        .par_iter()
        .map(|&(entry, ka, kb, no, ne)| {
            let (po, pe) = (payload(no, b'0'), payload(ne, b'a'));
            let script = format!("printf '%s' '{}'; printf '%s' '{}' >&2", String::from_utf8_lossy(&po), String::from_utf8_lossy(&pe));
            let so = std::sync::Arc::new(std::sync::Mutex::new(Vec::new()));
            let se = std::sync::Arc::new(std::sync::Mutex::new(Vec::new()));
            let mut cmd = Command::new("/bin/sh");
            cmd.arg("-c").arg(&script).stdin(std::process::Stdio::null());
            let mut returned: Option<(Vec<u8>, Vec<u8>)> = None;
            let r = if entry == 0 {
                cmd.spawn_and_write_streams(mk_sink_s(ka, so.clone()), mk_sink_s(kb, se.clone())).and_then(|mut c| c.wait()).map(|_| ())
            } else {
                cmd.output_and_write_streams(mk_sink_s(ka, so.clone()), mk_sink_s(kb, se.clone())).map(|o| {
                    returned = Some((o.stdout, o.stderr));
                })
            };
            let name = ["spawn_and_write_streams", "output_and_write_streams"][entry];
            let replay = json!({"kind": "entry-short", "entry": entry, "sinks": [ka, kb], "sizes": [no, ne]});
            if let Err(e) = r {
                return Some(("entry:failed".to_string(), format!("{name} with targets ({}, {}) on {no}/{ne} bytes failed: {e}", SINK_NAMES[ka], SINK_NAMES[kb]), replay));
            }
            let (go, ge) = (so.lock().unwrap().clone(), se.lock().unwrap().clone());
            if go != po || ge != pe {
                return Some(("entry:bytes-lost-with-short-writer".to_string(), format!("{name} with targets ({}, {}): the child wrote {no}/{ne} bytes to stdout/stderr, the writers received {}/{} (first difference at {:?}/{:?})", SINK_NAMES[ka], SINK_NAMES[kb], go.len(), ge.len(), go.iter().zip(&po).position(|(a, b)| a != b), ge.iter().zip(&pe).position(|(a, b)| a != b)), replay));
            }
            if let Some((ro, re)) = returned {
                if ro != po || re != pe {
                    return Some(("entry:returned-output-differs".to_string(), format!("{name}: returned Output holds {}/{} bytes, the child wrote {no}/{ne}", ro.len(), re.len()), replay));
                }
            }
            None
        })
        .collect();
    for v in results {
        runs += 1;
        if let Some(v) = v {
            viols.push(v);
        }
    }
    // "returns once both streams close": a child that closes stdout and stderr and keeps running for
    // 6 more seconds; spawn_and_write_streams must come back long before the child exits
    {
        let so = std::sync::Arc::new(std::sync::Mutex::new(Vec::new()));
        let se = std::sync::Arc::new(std::sync::Mutex::new(Vec::new()));
        let t0 = std::time::Instant::now();
        let r = Command::new("/bin/sh").arg("-c").arg("printf out; printf err >&2; exec >&- 2>&-; sleep 6").stdin(std::process::Stdio::null()).spawn_and_write_streams(mk_sink_s(0, so.clone()), mk_sink_s(0, se.clone()));
        let took = t0.elapsed();
        runs += 1;
        match r {
            Ok(mut child) => {
                let _ = child.kill();
                let _ = child.wait();
                if took > Duration::from_secs(4) {
                    viols.push(("entry:waits-for-exit-not-for-streams".to_string(), format!("spawn_and_write_streams returned after {:.1} s for a child that closed both streams at once and exits after 6 s", took.as_secs_f64()), json!({"kind": "entry-short"})));
                } else if *so.lock().unwrap() != b"out" || *se.lock().unwrap() != b"err" {
                    viols.push(("entry:bytes-lost-with-short-writer".to_string(), "child that closes its streams early: output not delivered".to_string(), json!({"kind": "entry-short"})));
                }
            }
            Err(e) => viols.push(("entry:failed".to_string(), format!("spawn_and_write_streams failed: {e}"), json!({"kind": "entry-short"}))),
        }
    }
    // a child that reads its standard input to the end before it writes: with the stdin the caller
    // configured (here: null) it sees EOF at once, and both entry points return
    for entry in 0..2 {
        let (tx, rx) = channel();
        std::thread::spawn(move || {
            let so = std::sync::Arc::new(std::sync::Mutex::new(Vec::new()));
            let se = std::sync::Arc::new(std::sync::Mutex::new(Vec::new()));
            let mut cmd = Command::new("/bin/sh");
            cmd.arg("-c").arg("cat; printf after-stdin; printf err >&2").stdin(std::process::Stdio::null());
            let r = if entry == 0 {
                cmd.spawn_and_write_streams(mk_sink_s(0, so.clone()), mk_sink_s(0, se.clone())).and_then(|mut c| c.wait()).map(|_| ())
            } else {
                cmd.output_and_write_streams(mk_sink_s(0, so.clone()), mk_sink_s(0, se.clone())).map(|_| ())
            };
            let _ = tx.send((r.map_err(|e| e.to_string()), so.lock().unwrap().clone()));
        });
        runs += 1;
        match rx.recv_timeout(Duration::from_secs(10)) {
            Err(_) => viols.push(("deadlock:child-reading-stdin".to_string(), format!("{} with stdin set to null: a child that reads stdin to EOF first did not finish within 10 s", ["spawn_and_write_streams", "output_and_write_streams"][entry]), json!({"kind": "entry-short"}))),
            Ok((Ok(()), out)) if out == b"after-stdin" => {}
            Ok((r, out)) => viols.push(("entry:bytes-lost-with-short-writer".to_string(), format!("child reading stdin first: result {r:?}, stdout {:?}", String::from_utf8_lossy(&out)), json!({"kind": "entry-short"}))),
        }
    }
    // a writer that fails mid-way while the child keeps writing more than a pipe buffer to the same
    // stream: the call must come back (with the writer's error), not hang
    for which in 0..2 {
        struct FailS {
            left: usize,
        }
        impl Write for FailS {
            fn write(&mut self, buf: &[u8]) -> std::io::Result<usize> {
                if buf.len() > self.left {
                    return Err(std::io::Error::other("writer full"));
                }
                self.left -= buf.len();
                Ok(buf.len())
            }
            fn flush(&mut self) -> std::io::Result<()> {
                Ok(())
            }
        }
        let (tx, rx) = channel();
        std::thread::spawn(move || {
            let script = "head -c 300000 /dev/zero | tr '\\0' 'e' ; head -c 300000 /dev/zero | tr '\\0' 'f' >&2";
            let mut cmd = Command::new("/bin/sh");
            cmd.arg("-c").arg(script).stdin(std::process::Stdio::null());
            let r = if which == 0 { cmd.output_and_write_streams(FailS { left: 20_000 }, FailS { left: usize::MAX }) } else { cmd.output_and_write_streams(FailS { left: usize::MAX }, FailS { left: 20_000 }) };
            let _ = tx.send(r.map(|_| ()).map_err(|e| e.to_string()));
        });
        runs += 1;
        match rx.recv_timeout(Duration::from_secs(15)) {
            Err(_) => viols.push(("deadlock:failing-writer".to_string(), format!("output_and_write_streams with a {} writer that fails after 20000 bytes and a child writing 300000 bytes to each stream did not return within 15 s", ["stdout", "stderr"][which]), json!({"kind": "entry-short"}))),
            Ok(Ok(())) => viols.push(("entry:writer-error-swallowed".to_string(), format!("the {} writer failed but the call reported success", ["stdout", "stderr"][which]), json!({"kind": "entry-short"}))),
            Ok(Err(_)) => {}
        }
    }
    // a writer that reports one transient error (WouldBlock / Interrupted / TimedOut) at its k-th
    // call, having taken nothing, and accepts everything afterwards: the call may fail, but if it
    // reports success every byte must have arrived, in order (no hole where the error was)
    let tjobs: Vec<(usize, usize, usize, usize)> = (0..2).flat_map(|e| (0..2).flat_map(move |w| (0..3).flat_map(move |k| (1..=3).map(move |at| (e, w, k, at))))).collect();
    let tres: Vec<Option<Viol>> = tjobs
        .par_iter()
        .map(|&(entry, which, kind, at)| {
            struct Transient {
                store: std::sync::Arc<std::sync::Mutex<Vec<u8>>>,
                calls: usize,
                at: usize,
                kind: std::io::ErrorKind,
            }
            impl Write for Transient {
                fn write(&mut self, buf: &[u8]) -> std::io::Result<usize> {
                    self.calls += 1;
                    if self.calls == self.at {
                        return Err(std::io::Error::new(self.kind, "transient"));
                    }
                    self.store.lock().unwrap().extend_from_slice(buf);
                    Ok(buf.len())
                }
                fn flush(&mut self) -> std::io::Result<()> {
                    Ok(())
                }
            }
            let kinds = [std::io::ErrorKind::WouldBlock, std::io::ErrorKind::Interrupted, std::io::ErrorKind::TimedOut];
            let (po, pe) = (payload(30_000, b'0'), payload(30_000, b'a'));
            let script = format!("printf '%s' '{}'; printf '%s' '{}' >&2", String::from_utf8_lossy(&po), String::from_utf8_lossy(&pe));
            let so = std::sync::Arc::new(std::sync::Mutex::new(Vec::new()));
            let se = std::sync::Arc::new(std::sync::Mutex::new(Vec::new()));
            let mk = |store: &std::sync::Arc<std::sync::Mutex<Vec<u8>>>, faulty: bool| Transient { store: store.clone(), calls: 0, at: if faulty { at } else { usize::MAX }, kind: kinds[kind] };
            let mut cmd = Command::new("/bin/sh");
            cmd.arg("-c").arg(&script).stdin(std::process::Stdio::null());
            let mut returned: Option<(Vec<u8>, Vec<u8>)> = None;
            let r = if entry == 0 {
                cmd.spawn_and_write_streams(mk(&so, which == 0), mk(&se, which == 1)).and_then(|mut c| c.wait()).map(|_| ())
            } else {
                cmd.output_and_write_streams(mk(&so, which == 0), mk(&se, which == 1)).map(|o| {
                    returned = Some((o.stdout, o.stderr));
                })
            };
            if r.is_err() {
                return None;
            }
            let name = ["spawn_and_write_streams", "output_and_write_streams"][entry];
            let (go, ge) = (so.lock().unwrap().clone(), se.lock().unwrap().clone());
            let replay = json!({"kind": "entry-short", "transient": [entry, which, kind, at]});
            if go != po || ge != pe {
                return Some(("entry:bytes-lost-after-transient-writer-error".to_string(), format!("{name}: the {} writer reported {:?} once at call {at} and the call still reported success, but the writers hold {}/{} of 30000/30000 bytes", ["stdout", "stderr"][which], kinds[kind], go.len(), ge.len()), replay));
            }
            if let Some((ro, re)) = returned {
                if ro != po || re != pe {
                    return Some(("entry:returned-output-differs".to_string(), format!("{name}: after a transient {:?} of the {} writer the returned Output holds {}/{} bytes of 30000/30000", kinds[kind], ["stdout", "stderr"][which], ro.len(), re.len()), replay));
                }
            }
            None
        })
        .collect();
    for v in tres {
        runs += 1;
        if let Some(v) = v {
            viols.push(v);
        }
    }
    (runs, viols)
}

/// segment lengths around every power of two from 2^10 to 2^17 (internal buffer thresholds): one
/// long segment + marker + short remainder, written whole, in two halves and in 4096-byte chunks
fn big_segments() -> (u64, u64, Vec<Viol>) {
    let mut calls = 0u64;
    let mut viols = Vec::new();
    let mut n = 0u64;
    for k in 10..=17u32 {
        for size in [(1usize << k) - 1, 1 << k, (1 << k) + 1] {
            let mut input = vec![b'a'; size];
            input.push(M);
            input.extend_from_slice(b"bb");
            for (fname, f) in mapping_fns().into_iter().take(2) {
                let want = ref_mapped(&input, &f);
                for chunk in [input.len(), input.len() / 2 + 1, 4096] {
                    let mut inner: Vec<u8> = Vec::new();
                    {
                        let mut w = mapped(&mut inner, M, f);
                        for c in input.chunks(chunk) {
                            w.write_all(c).unwrap();
                            calls += 1;
                        }
                    }
                    n += 1;
                    if inner != want {
                        viols.push(("mapped:content-long-segment".to_string(), format!("MappedWrite({fname}) on a segment of {size} bytes + marker + 2 bytes written in chunks of {chunk}: inner writer holds {} bytes, expected {} (first difference at byte {})", inner.len(), want.len(), inner.iter().zip(&want).position(|(a, b)| a != b).unwrap_or(inner.len().min(want.len()))), json!({"kind": "mapped-long", "size": size, "chunk": chunk, "fn": fname})));
                    }
                }
            }
        }
    }
    (calls, n, viols)
}

fn all_strings(max: usize) -> Vec<Vec<u8>> {
    let mut out = vec![vec![]];
    let mut level: Vec<Vec<u8>> = vec![vec![]];
    for _ in 0..max {
        let mut next = Vec::new();
        for s in &level {
            for c in [M, b'a', b'b'] {
                let mut t = s.clone();
                t.push(c);
                next.push(t);
            }
        }
        out.extend(next.iter().cloned());
        level = next;
    }
    out
}

// ------------------------------------------------------------------ (b) pipe model

const CAP: usize = 4096;

#[derive(Clone, Copy, Debug, Hash, PartialEq, Eq, serde::Serialize, serde::Deserialize)]
pub enum SOp {
    W(usize, usize),
    Close(usize),
}
#[derive(Clone, Copy, Debug, Hash, PartialEq, Eq)]
pub enum Cop {
    NotStarted,
    Idle,
    Hold(usize),
    Done,
}
#[derive(Clone, Copy, Debug, Hash, PartialEq, Eq)]
pub enum Variant {
    Par,
    SeqOutFirst,
    SeqErrFirst,
}
#[derive(Clone, Debug, Hash, PartialEq, Eq)]
pub struct PM {
    script: Arc<Vec<SOp>>,
    pc: usize,
    pending: bool,
    fill: [usize; 2],
    closed: [bool; 2],
    written: [usize; 2],
    delivered: [usize; 2],
    cop: [Cop; 2],
    exited: bool,
    returned: bool,
    variant: Variant,
}
#[derive(Clone, Copy, Debug, PartialEq, Eq, Hash, serde::Serialize, serde::Deserialize)]
pub enum Act {
    Token,
    Grant(usize),
    // internal
    Complete,
    Exit,
    Read(usize, usize),
    Eof(usize),
    Return,
    Start(usize),
}

impl PM {
    fn new(script: Vec<SOp>, variant: Variant) -> PM {
        let cop = match variant {
            Variant::Par => [Cop::Idle, Cop::Idle],
            Variant::SeqOutFirst => [Cop::Idle, Cop::NotStarted],
            Variant::SeqErrFirst => [Cop::NotStarted, Cop::Idle],
        };
        PM { script: Arc::new(script), pc: 0, pending: false, fill: [0, 0], closed: [false, false], written: [0, 0], delivered: [0, 0], cop, exited: false, returned: false, variant }
    }
    fn fits(&self) -> bool {
        self.pending
            && match self.script[self.pc] {
                SOp::W(s, n) => self.fill[s] + n <= CAP,
                SOp::Close(_) => true,
            }
    }
    fn env_actions(&self) -> Vec<Act> {
        let mut v = Vec::new();
        if self.pc < self.script.len() && !self.pending {
            v.push(Act::Token);
        }
        for s in 0..2 {
            if matches!(self.cop[s], Cop::Hold(_)) {
                v.push(Act::Grant(s));
            }
        }
        v
    }
    fn internal_actions(&self, all_read_sizes: bool) -> Vec<Act> {
        let mut v = Vec::new();
        if self.fits() {
            v.push(Act::Complete);
        }
        if self.pc == self.script.len() && !self.pending && !self.exited {
            v.push(Act::Exit);
        }
        for s in 0..2 {
            if self.cop[s] == Cop::Idle {
                if self.fill[s] > 0 {
                    v.push(Act::Read(s, self.fill[s]));
                    // partial reads: half of what is available (keeps the set of fill levels small;
                    // the model does not assume the implementation's buffer size)
                    if all_read_sizes && self.fill[s] > 1 {
                        v.push(Act::Read(s, self.fill[s] / 2));
                    }
                } else if self.closed[s] {
                    v.push(Act::Eof(s));
                }
            }
            if self.cop[s] == Cop::NotStarted && self.cop[1 - s] == Cop::Done {
                v.push(Act::Start(s));
            }
        }
        if self.cop == [Cop::Done, Cop::Done] && self.exited && !self.returned {
            v.push(Act::Return);
        }
        v
    }
    fn apply(&mut self, a: Act) {
        match a {
            Act::Token => self.pending = true,
            Act::Grant(s) => {
                if let Cop::Hold(k) = self.cop[s] {
                    self.delivered[s] += k;
                    self.cop[s] = Cop::Idle;
                }
            }
            Act::Complete => {
                match self.script[self.pc] {
                    SOp::W(s, n) => {
                        self.fill[s] += n;
                        self.written[s] += n;
                    }
                    SOp::Close(s) => self.closed[s] = true,
                }
                self.pc += 1;
                self.pending = false;
            }
            Act::Exit => {
                self.exited = true;
                self.closed = [true, true];
            }
            Act::Read(s, k) => {
                self.fill[s] -= k;
                self.cop[s] = Cop::Hold(k);
            }
            Act::Eof(s) => self.cop[s] = Cop::Done,
            Act::Start(s) => self.cop[s] = Cop::Idle,
            Act::Return => self.returned = true,
        }
    }
}

struct AbstractModel {
    scripts: Vec<Vec<SOp>>,
    variant: Variant,
}
impl Model for AbstractModel {
    type State = PM;
    type Action = Act;
    fn init_states(&self) -> Vec<PM> {
        self.scripts.iter().map(|s| PM::new(s.clone(), self.variant)).collect()
    }
    fn actions(&self, s: &PM, out: &mut Vec<Act>) {
        out.extend(s.env_actions());
        out.extend(s.internal_actions(true));
    }
    fn next_state(&self, s: &PM, a: Act) -> Option<PM> {
        let mut n = s.clone();
        n.apply(a);
        Some(n)
    }
    fn properties(&self) -> Vec<Property<Self>> {
        vec![
            Property::always("no deadlock", |_, s: &PM| s.returned || !s.env_actions().is_empty() || !s.internal_actions(true).is_empty()),
            Property::always("lossless at return", |_, s: &PM| !s.returned || (s.delivered == s.written && s.fill == [0, 0])),
        ]
    }
}

fn scripts(max_len: usize) -> Vec<Vec<SOp>> {
    let ops: Vec<SOp> = vec![SOp::W(0, 1), SOp::W(0, 2048), SOp::W(0, 4096), SOp::W(1, 1), SOp::W(1, 2048), SOp::W(1, 4096), SOp::Close(0), SOp::Close(1)];
    let mut out: Vec<Vec<SOp>> = vec![vec![]];
    let mut level: Vec<Vec<SOp>> = vec![vec![]];
    for _ in 0..max_len {
        let mut next = Vec::new();
        for s in &level {
            for o in &ops {
                // nothing is done with a stream after closing it
                let stream = match o {
                    SOp::W(x, _) | SOp::Close(x) => *x,
                };
                if s.contains(&SOp::Close(stream)) {
                    continue;
                }
                let mut n = s.clone();
                n.push(*o);
                next.push(n);
            }
        }
        out.extend(next.iter().cloned());
        level = next;
    }
    out
}

fn script_text(s: &[SOp]) -> String {
    s.iter()
        .map(|o| match o {
            SOp::W(0, n) => format!("o{n}"),
            SOp::W(_, n) => format!("e{n}"),
            SOp::Close(0) => "O".into(),
            SOp::Close(_) => "E".into(),
        })
        .collect::<Vec<_>>()
        .join(",")
}

// ------------------------------------------------------------------ (b) controller

enum Ev {
    Announce(usize, Vec<u8>),
    Ack,
    Returned(Result<(bool, Vec<u8>, Vec<u8>), String>),
}

struct Gated {
    s: usize,
    tx: Sender<Ev>,
    grant: Receiver<()>,
}
impl Write for Gated {
    fn write(&mut self, buf: &[u8]) -> std::io::Result<usize> {
        if buf.is_empty() {
            return Ok(0);
        }
        let _ = self.tx.send(Ev::Announce(self.s, buf.to_vec()));
        match self.grant.recv() {
            Ok(()) => Ok(buf.len()),
            Err(_) => Err(std::io::Error::other("controller gone")),
        }
    }
    fn flush(&mut self) -> std::io::Result<()> {
        Ok(())
    }
}

fn pattern(s: usize, i: usize) -> u8 {
    if s == 0 { (i % 251) as u8 } else { (255 - (i % 241)) as u8 }
}

pub struct RunResult {
    /// (number of enabled env actions, index chosen) at each decision point
    trace: Vec<(usize, usize)>,
    acts: Vec<Act>,
    violation: Option<(String, String)>,
}

static CHILD: Mutex<Option<String>> = Mutex::new(None);

fn run_schedule(script: &[SOp], choices: &[usize], wait: Duration) -> RunResult {
    let sc = Scratch::new("c19");
    let ctrl_p = sc.path.join("ctrl");
    let ack_p = sc.path.join("ack");
    for p in [&ctrl_p, &ack_p] {
        let c = std::ffi::CString::new(p.to_str().unwrap()).unwrap();
        assert_eq!(unsafe { libc::mkfifo(c.as_ptr(), 0o600) }, 0);
    }
    // O_RDWR never blocks on a FIFO and keeps it open for the child's whole life
    let mut ctrl = std::fs::OpenOptions::new().read(true).write(true).open(&ctrl_p).unwrap();
    let ack = std::fs::OpenOptions::new().read(true).write(true).open(&ack_p).unwrap();
    let (tx, rx) = channel::<Ev>();
    let (g0tx, g0rx) = channel::<()>();
    let (g1tx, g1rx) = channel::<()>();
    let mut grants = [Some(g0tx), Some(g1tx)];
    // ack reader
    let ack_tx = tx.clone();
    let mut ack_r = ack.try_clone().unwrap();
    let ack_thread = std::thread::spawn(move || {
        use std::io::Read;
        let mut b = [0u8; 1];
        while ack_r.read_exact(&mut b).is_ok() {
            if b[0] == b'q' {
                break;
            }
            let _ = ack_tx.send(Ev::Ack);
        }
    });
    // the real call
    let child_bin = CHILD.lock().unwrap().clone().unwrap();
    let text = script_text(script);
    let wtx = tx.clone();
    let (o_tx, e_tx) = (tx.clone(), tx.clone());
    let (cp, ap) = (ctrl_p.clone(), ack_p.clone());
    let worker = std::thread::spawn(move || {
        let out = Gated { s: 0, tx: o_tx, grant: g0rx };
        let err = Gated { s: 1, tx: e_tx, grant: g1rx };
        let r = Command::new(child_bin).arg(cp).arg(ap).arg(text).stdin(std::process::Stdio::null()).output_and_write_streams(out, err);
        let _ = wtx.send(Ev::Returned(r.map(|o| (o.status.success(), o.stdout, o.stderr)).map_err(|e| e.to_string())));
    });
    let mut m = PM::new(script.to_vec(), Variant::Par);
    let mut trace = Vec::new();
    let mut acts = Vec::new();
    let mut violation: Option<(String, String)> = None;
    // Events come from three independent sources (ack reader, two copier threads, the worker), so
    // they may arrive in any order consistent with causality. Received events are buffered and
    // applied as soon as the model can explain them; `ack_credit` counts completions that were
    // inferred from their effects before the ack itself arrived.
    let mut ack_credit = 0usize;
    let mut announced = [0usize; 2];
    let mut choice_i = 0;
    let mut buffer: Vec<Ev> = Vec::new();
    let st = script_text(script);
    'outer: loop {
        // 1. wait for every event the model says must follow
        loop {
            let closure = |m: &mut PM| {
                let mut progressed = true;
                while progressed {
                    progressed = false;
                    for a in m.internal_actions(false) {
                        if matches!(a, Act::Exit | Act::Eof(_)) {
                            m.apply(a);
                            progressed = true;
                            break;
                        }
                    }
                }
            };
            closure(&mut m);
            // explain buffered events
            let mut progress = true;
            while progress {
                progress = false;
                let mut i = 0;
                while i < buffer.len() {
                    let explained = match &buffer[i] {
                        Ev::Ack => {
                            if ack_credit > 0 {
                                ack_credit -= 1;
                                true
                            } else if m.fits() {
                                m.apply(Act::Complete);
                                true
                            } else {
                                false
                            }
                        }
                        Ev::Announce(s, bytes) => {
                            let (s, k) = (*s, bytes.len());
                            if m.cop[s] == Cop::Idle && m.fill[s] < k && m.fits() {
                                // data of a completed write can be seen before its ack
                                m.apply(Act::Complete);
                                ack_credit += 1;
                            }
                            if m.cop[s] == Cop::Idle && m.fill[s] >= k {
                                for (j, b) in bytes.iter().enumerate() {
                                    if *b != pattern(s, announced[s] + j) {
                                        violation = Some(("content:writer".into(), format!("script {st} schedule {acts:?}: writer {s} byte {} is {b}, expected {} (lost, duplicated or reordered data)", announced[s] + j, pattern(s, announced[s] + j))));
                                        break 'outer;
                                    }
                                }
                                announced[s] += k;
                                m.apply(Act::Read(s, k));
                                true
                            } else {
                                false
                            }
                        }
                        Ev::Returned(_) => {
                            let mut t = m.clone();
                            let mut credit = 0;
                            if t.fits() {
                                // the last op's ack may still be in flight
                                t.apply(Act::Complete);
                                credit = 1;
                            }
                            closure(&mut t);
                            if t.cop == [Cop::Done, Cop::Done] && t.exited && !t.returned {
                                m = t;
                                ack_credit += credit;
                                m.apply(Act::Return);
                                true
                            } else {
                                false
                            }
                        }
                    };
                    if explained {
                        let ev = buffer.remove(i);
                        progress = true;
                        closure(&mut m);
                        if let Ev::Returned(r) = ev {
                            match r {
                                Err(e) => violation = Some(("call-error".into(), format!("script {st}: {e}"))),
                                Ok((ok, out, err)) => {
                                    let good = |s: usize, v: &Vec<u8>| v.len() == m.written[s] && v.iter().enumerate().all(|(i, b)| *b == pattern(s, i));
                                    if !ok {
                                        violation = Some(("child-failed".into(), format!("script {st}: child exit status not success")));
                                    } else if !good(0, &out) || !good(1, &err) {
                                        violation = Some(("content:output".into(), format!("script {st} schedule {acts:?}: returned Output has {} / {} bytes, child wrote {:?}, or content differs", out.len(), err.len(), m.written)));
                                    } else if m.delivered != m.written {
                                        violation = Some(("content:writer-incomplete".into(), format!("script {st}: writers got {:?}, child wrote {:?}", m.delivered, m.written)));
                                    }
                                }
                            }
                            break 'outer;
                        }
                    } else {
                        i += 1;
                    }
                }
            }
            let expect_ack = m.fits() || ack_credit > 0;
            let expect_ann: Vec<usize> = (0..2).filter(|s| m.cop[*s] == Cop::Idle && m.fill[*s] > 0).collect();
            let expect_ret = m.cop == [Cop::Done, Cop::Done] && m.exited && !m.returned;
            if !expect_ack && expect_ann.is_empty() && !expect_ret && buffer.is_empty() {
                break;
            }
            match rx.recv_timeout(wait) {
                Ok(ev) => buffer.push(ev),
                Err(RecvTimeoutError::Timeout) | Err(RecvTimeoutError::Disconnected) => {
                    if let Some(ev) = buffer.first() {
                        let (sig, what) = match ev {
                            Ev::Ack => ("unexpected-event:ack", "the child completed an op the model says is blocked".to_string()),
                            Ev::Announce(s, b) => ("unexpected-event:announce", format!("writer {s} received {} bytes the model cannot account for", b.len())),
                            Ev::Returned(_) => ("early-return", "the call returned before both streams were closed and drained".to_string()),
                        };
                        violation = Some((sig.into(), format!("script {st} schedule {acts:?}: {what} (model {m:?})")));
                    } else {
                        let what = if expect_ret { "the call to return".to_string() } else if !expect_ann.is_empty() { format!("data on stream {} to reach its writer", expect_ann[0]) } else { "the child's blocked write to complete".to_string() };
                        let sig = if expect_ret { "no-return" } else if !expect_ann.is_empty() { "stream-not-drained" } else { "child-write-blocked" };
                        violation = Some((format!("deadlock:{sig}"), format!("script {st} schedule {acts:?}: waited {wait:?} for {what} (model state {m:?})")));
                    }
                    break 'outer;
                }
            }
        }
        // 2. next environment action
        let env = m.env_actions();
        if env.is_empty() {
            if !m.returned {
                violation = Some(("model-stuck".into(), format!("script {}: model has no enabled action: {m:?}", script_text(script))));
            }
            break;
        }
        let pick = if choice_i < choices.len() { choices[choice_i] } else { 0 };
        if pick >= env.len() {
            violation = Some(("MACHINERY".into(), format!("replay divergence: choice {pick} of {} at point {choice_i}", env.len())));
            break;
        }
        trace.push((env.len(), pick));
        choice_i += 1;
        let a = env[pick];
        acts.push(a);
        m.apply(a);
        match a {
            Act::Token => {
                ctrl.write_all(b"t").unwrap();
            }
            Act::Grant(s) => {
                if let Some(g) = &grants[s] {
                    let _ = g.send(());
                }
            }
            _ => unreachable!(),
        }
    }
    // tear down: release sinks, feed remaining tokens so that the child can finish/die, stop the ack reader
    grants[0].take();
    grants[1].take();
    for _ in 0..script.len() + 1 {
        let _ = ctrl.write_all(b"t");
    }
    let deadline = std::time::Instant::now() + Duration::from_secs(5);
    while !worker.is_finished() && std::time::Instant::now() < deadline {
        // drain events so that blocked senders can proceed
        let _ = rx.recv_timeout(Duration::from_millis(20));
    }
    if worker.is_finished() {
        let _ = worker.join();
    }
    let mut ackw = ack.try_clone().unwrap();
    let _ = ackw.write_all(b"q");
    let _ = ack_thread.join();
    RunResult { trace, acts, violation }
}

static VIOLATIONS_SEEN: std::sync::atomic::AtomicUsize = std::sync::atomic::AtomicUsize::new(0);

fn explore_script(script: &[SOp], wait: Duration, max_runs: usize) -> (u64, Vec<Viol>, bool) {
    // watchdog expiries are slow: after a handful of counterexamples the remaining scripts add nothing
    if VIOLATIONS_SEEN.load(std::sync::atomic::Ordering::Relaxed) >= 4 {
        return (0, vec![], false);
    }
    let mut stack: Vec<Vec<usize>> = vec![vec![]];
    let mut runs = 0u64;
    let mut viols = Vec::new();
    let mut capped = false;
    while let Some(prefix) = stack.pop() {
        if runs as usize >= max_runs {
            capped = true;
            break;
        }
        let mut r = run_schedule(script, &prefix, wait);
        runs += 1;
        if let Some((sig, _)) = &r.violation {
            if sig.starts_with("deadlock") || sig.starts_with("unexpected-event") || sig == "early-return" {
                // a watchdog expiry is only believed if the same schedule fails twice
                let again = run_schedule(script, &r.trace.iter().map(|t| t.1).collect::<Vec<_>>(), wait);
                if again.violation.is_none() {
                    r.violation = None;
                    r.trace = again.trace;
                    r.acts = again.acts;
                }
            }
        }
        if let Some((sig, what)) = r.violation {
            viols.push((sig, what, json!({"kind": "schedule", "script": script, "choices": r.trace.iter().map(|t| t.1).collect::<Vec<_>>()})));
            // one counterexample per script is enough (watchdog expiries are slow)
            VIOLATIONS_SEEN.fetch_add(1, std::sync::atomic::Ordering::Relaxed);
            break;
        }
        for i in prefix.len()..r.trace.len() {
            for alt in 1..r.trace[i].0 {
                let mut p: Vec<usize> = r.trace[..i].iter().map(|t| t.1).collect();
                p.push(alt);
                stack.push(p);
            }
        }
    }
    (runs, viols, capped)
}

fn main() {
    let args = Args::parse();
    let mut rep = Reporter::new("C19", "model_checking", &args);
    let child = std::env::current_exe().unwrap().parent().unwrap().parent().unwrap().join("streamchild");
    if !child.exists() {
        rep.machinery(format!("{} not built (bin/setup)", child.display()));
        rep.finish();
    }
    *CHILD.lock().unwrap() = Some(child.to_str().unwrap().to_string());
    let wait = Duration::from_secs(8);
    if let Some(path) = &args.replay {
        let doc: serde_json::Value = serde_json::from_str(&std::fs::read_to_string(path).expect("replay file")).expect("json");
        let r = &doc["replay"];
        if r["kind"] == "schedule" {
            let script: Vec<SOp> = serde_json::from_value(r["script"].clone()).unwrap();
            let choices: Vec<usize> = serde_json::from_value(r["choices"].clone()).unwrap();
            let res = run_schedule(&script, &choices, wait);
            println!("script {} schedule {:?}", script_text(&script), res.acts);
            if let Some((sig, what)) = res.violation {
                println!("DIFFERENCE: {what}");
                rep.violation(&sig, what, json!({}));
            } else {
                println!("conforms to the pipe model; all bytes delivered in order");
            }
        } else if r["kind"] == "entry-short" {
            for (sig, what, _) in entry_points_with_short_writers().1 {
                println!("DIFFERENCE: {what}");
                rep.violation(&sig, what, json!({}));
            }
        } else if r["kind"] == "mapped-long" {
            for (sig, what, _) in big_segments().2 {
                println!("DIFFERENCE: {what}");
                rep.violation(&sig, what, json!({}));
            }
        } else {
            let input: Vec<u8> = serde_json::from_value(r["input"].clone()).unwrap();
            for (sig, what, _) in writers_for(&input, true, r["flushes"].as_bool().unwrap_or(false)).2 {
                println!("DIFFERENCE: {what}");
                rep.violation(&sig, what, json!({}));
            }
        }
        rep.finish();
    }
    // (a) writers
    let strings = all_strings(if args.thorough() { 8 } else { 7 });
    let mut wres: Vec<(u64, u64, Vec<Viol>)> = strings.par_iter().map(|s| writers_for(s, s.len() <= 4, false)).collect();
    wres.extend(strings.par_iter().filter(|s| s.len() <= 6).map(|s| writers_for(s, false, true)).collect::<Vec<_>>());
    wres.push(big_segments());
    let (entry_runs, entry_viols) = entry_points_with_short_writers();
    for (sig, what, r) in entry_viols {
        rep.violation(&sig, what, r);
    }
    rep.cov("entry_point_runs_with_short_writers", entry_runs);
    let mut wcalls = 0;
    let mut wstates = 0;
    for (c, s, v) in wres {
        wcalls += c;
        wstates += s;
        for (sig, what, r) in v {
            rep.violation(&sig, what, r);
        }
    }
    // (b1) the abstract model, exhaustively, with negative controls
    let dbg = |k: &str, d: usize| std::env::var(k).ok().and_then(|v| v.parse().ok()).unwrap_or(d);
    eprintln!("writers done: {wcalls} calls");
    let mlen = dbg("C19_MLEN", if args.thorough() { 4 } else { 3 });
    let all_scripts = scripts(mlen);
    let mut model_cov = serde_json::Map::new();
    let mut model_states = 0;
    let mut model_tr = 0;
    for (name, variant, must_hold) in [("PAR", Variant::Par, true), ("SEQ_OUT_FIRST", Variant::SeqOutFirst, false), ("SEQ_ERR_FIRST", Variant::SeqErrFirst, false)] {
        let m = AbstractModel { scripts: all_scripts.clone(), variant };
        let r = bfs_levels(&m, &BfsOpts { max_violations: 3, ..Default::default() });
        let deadlocks = r.violations.iter().filter(|v| v.property == "no deadlock").count();
        model_cov.insert(name.into(), json!({"states": r.states, "transitions": r.transitions, "max_depth": r.max_depth, "deadlock_found": deadlocks > 0, "first_deadlock": r.violations.first().map(|v| format!("{} via {:?}", script_text(&v.state.script), v.path))}));
        if variant == Variant::Par {
            model_states = r.states;
            model_tr = r.transitions;
        }
        if must_hold && !r.violations.is_empty() {
            rep.machinery(format!("the pipe model itself violates {} on {:?}", r.violations[0].property, r.violations[0].path));
        }
        if !must_hold && deadlocks == 0 {
            rep.machinery(format!("negative control failed: the {name} variant of the pipe model shows no deadlock"));
        }
    }
    // (b2) the model drives the real call through every maximal environment schedule
    eprintln!("model done: {model_states} states");
    let slen = dbg("C19_SLEN", if args.thorough() { 4 } else { 3 });
    let run_scripts = scripts(slen);
    let per_script_cap = if args.thorough() { 3000 } else { 600 };
    // one process can only host a few concurrent runs (threads + fds): modest parallelism
    let pool = rayon::ThreadPoolBuilder::new().num_threads(12).build().unwrap();
    let sres: Vec<(u64, Vec<Viol>, bool)> = pool.install(|| run_scripts.par_iter().map(|s| explore_script(s, wait, per_script_cap)).collect());
    let mut schedules = 0;
    let mut capped = 0;
    for (n, v, c) in sres {
        schedules += n;
        if c {
            capped += 1;
        }
        for (sig, what, r) in v {
            if sig == "MACHINERY" {
                rep.machinery(what);
            } else {
                rep.violation(&sig, what, r);
            }
        }
    }
    // determinism: the same schedule twice gives the same trace
    let d1 = run_schedule(&run_scripts[run_scripts.len() / 2], &[], wait);
    let d2 = run_schedule(&run_scripts[run_scripts.len() / 2], &[], wait);
    if d1.trace != d2.trace || d1.acts != d2.acts {
        rep.machinery("the same schedule produced two different traces".into());
    }
    rep.cov("states", model_states + wstates);
    rep.cov("transitions", model_tr + wcalls);
    rep.cov("traces_validated_against_impl", schedules);
    rep.cov("pipe_model", serde_json::Value::Object(model_cov));
    rep.cov("model_scripts", all_scripts.len() as u64);
    rep.cov("driven_scripts", run_scripts.len() as u64);
    rep.cov("schedules_driven_through_real_call", schedules);
    rep.cov("scripts_with_schedule_cap_hit", capped);
    rep.cov("writer_strings", strings.len() as u64);
    rep.cov("writer_write_calls", wcalls);
    rep.cov("evaluations", schedules + wcalls);
    rep.cov("distinct_nontrivial", schedules + wstates);
    rep.cov("determinism_replays", 1);
    rep.cov("rule", "writers: every string over {marker,a,b} up to the length bound x every chunking (plus empty writes for short strings) x 4 mapping functions x finish by drop/unwrap through the real MappedWrite (also over an inner writer that fails once: the mapping function never sees two segments glued together), and TeeWrite incl. failing targets (also a second target that fails once: later chunks reach the first target whole); a child that reads its (null) stdin to EOF before writing; both command entry points x 5x5 target behaviours (accept-all, <=1, <=7 bytes per call, LineWriter over either) x 3x3 stream sizes handed the targets directly; a target reporting one transient error (WouldBlock, Interrupted, TimedOut) at its 1st..3rd call on either stream x both entry points (success only with every byte delivered); pipe system: PipeModel explored exhaustively with stateright-style BFS over all scripts (PAR must be deadlock-free and lossless, SEQ variants must deadlock = negative control), then every maximal sequence of environment actions (token, grant out, grant err) of the model is driven through the real output_and_write_streams with a scripted child (4096-byte pipes) and gated sinks, waiting for exactly the events the model predicts");
    rep.cov("bound", json!({"writer_string_len": if args.thorough() {8} else {7}, "model_script_len": mlen, "driven_script_len": slen, "write_sizes": [1, 2048, 4096], "pipe_capacity": CAP, "schedules_per_script_cap": per_script_cap}));
    rep.cov("exhaustive", capped == 0);
    if capped > 0 {
        rep.cov("cap_hit", format!("{capped} scripts reached the per-script schedule cap"));
    }
    rep.sample(json!({"script": script_text(&run_scripts[run_scripts.len() - 1]), "schedule": format!("{:?}", d1.acts)}));
    rep.sample(json!({"writer_input": "am", "chunkings": 2, "expected_add_prefix": ">am"}));
    rep.sample(json!({"script": "e4096,e1", "meaning": "fills the stderr pipe, then needs the stderr copier to run while stdout is idle"}));
    rep.assume("copier scheduling by the OS is covered by the model (all read sizes) and by the independence argument of DESIGN C19; the driven schedules use the eager-copier normal form");
    rep.finish();
}
