//! C14 — package descriptor normalisation through the public `package_composite_buildpack`.
use libcnb_data::buildpack::BuildpackId;
use libcnb_data::package_descriptor::PackageDescriptor;
use libcnb_package::package::package_composite_buildpack;
use rayon::prelude::*;
use serde::{Deserialize, Serialize};
use serde_json::json;
use std::collections::{BTreeMap, BTreeSet};
use std::path::{Path, PathBuf};
use vh::report::{Args, Reporter};
use vh::snapshot::Scratch;

#[derive(Clone, Debug, Serialize, Deserialize, PartialEq)]
pub struct Case {
    deps: Vec<String>,
    /// 0 complete, 1 missing x/y, 2 missing z, 3 completely empty map
    map: u8,
    /// source directory relative to the scratch root
    src: String,
    /// None | linux | windows
    os: Option<String>,
    bp_uri: String,
    /// an earlier packaging into the same destination from the same source directory with this
    /// descriptor (deps, os, buildpack uri); the result must not depend on it
    #[serde(default)]
    prev: Option<(Vec<String>, Option<String>, String)>,
}

const BP_URIS: [&str; 7] = [".", "docker://docker.io/x/meta", "./", "buildpack", "../shared/meta-buildpack", "/abs/meta", "urn:cnb:registry:org/meta@1"];

fn descriptor_text(deps: &[String], os: &Option<String>, bp_uri: &str) -> String {
    let mut p = format!("[buildpack]\nuri = \"{bp_uri}\"\n");
    for d in deps {
        p.push_str(&format!("\n[[dependencies]]\nuri = \"{d}\"\n"));
    }
    if let Some(os) = os {
        p.push_str(&format!("\n[platform]\nos = \"{os}\"\n"));
    }
    p
}

const FIXED_KINDS: [&str; 8] = ["libcnb:x/y", "libcnb:z", "a/../b", "/abs/dir/../p", "docker://docker.io/org/img:1.2", "https://example.com/a/../b.cnb?q=1#frag", "urn:cnb:registry:org/bp@1.0.0", "file:///opt/a/../one.cnb"];
/// `libcnb:` references whose id can never have a packaged location (not a valid buildpack id, or reserved): an error
// the last two: ids with a leading slash ("/x/y" is a valid id nobody has; "//x/y" has an authority and the path "/y")
const BAD_LIBCNB: [&str; 6] = ["libcnb:demo_one", "libcnb:app", "libcnb:", "libcnb:sbom", "libcnb:/x/y", "libcnb://x/y"];

/// reference: lexical normalisation of parent/rel (absolute, no '.', '..', empty segments)
fn lexical(parent: &Path, rel: &str) -> String {
    let mut segs: Vec<String> = parent.to_str().unwrap().split('/').filter(|s| !s.is_empty()).map(String::from).collect();
    for s in rel.split('/') {
        match s {
            "" | "." => {}
            ".." => {
                segs.pop();
            }
            x => segs.push(x.to_string()),
        }
    }
    format!("/{}", segs.join("/"))
}

fn packaged_path(root: &Path, idname: &str) -> PathBuf {
    // URI-safe characters beyond [A-Za-z0-9._~-]: legal in a path reference, to be written as they are
    root.join("pack+aged@1,x=y").join(idname.replace('/', "_"))
}

type Viol = (String, String, serde_json::Value);

fn run_case(c: &Case) -> (Vec<Viol>, String) {
    let sc = Scratch::new("c14");
    let root = &sc.path;
    // "via-link/<x>": the source directory is reached through a symbolic link (link -> real-src); the
    // paths a relative dependency denotes are relative to the location the caller named
    let src = root.join(&c.src);
    let dst = root.join("dst");
    if let Some(rest) = c.src.strip_prefix("via-link/") {
        std::fs::create_dir_all(root.join("elsewhere/real-src").join(rest)).unwrap();
        std::os::unix::fs::symlink(root.join("elsewhere/real-src"), root.join("via-link")).unwrap();
    }
    std::fs::create_dir_all(&src).unwrap();
    std::fs::create_dir_all(&dst).unwrap();
    let bptoml = "api = \"0.10\"\n\n[buildpack]\nid = \"verif/meta\"\nversion = \"0.0.1\"\n\n[[order]]\n\n[[order.group]]\nid = \"x/y\"\nversion = \"0.0.1\"\n";
    std::fs::write(src.join("buildpack.toml"), bptoml).unwrap();
    let p = descriptor_text(&c.deps, &c.os, &c.bp_uri);
    let mut map: BTreeMap<BuildpackId, PathBuf> = BTreeMap::new();
    if c.map != 1 && c.map != 3 {
        map.insert("x/y".parse().unwrap(), packaged_path(root, "x/y"));
    }
    if c.map != 2 && c.map != 3 {
        map.insert("z".parse().unwrap(), packaged_path(root, "z"));
    }
    if c.map != 3 {
        map.insert("unrelated".parse().unwrap(), packaged_path(root, "unrelated"));
    }
    // where an id is missing, ids that differ from it only in letter case are present: they are other buildpacks
    if c.map == 1 {
        map.insert("X/Y".parse().unwrap(), packaged_path(root, "SHOUTING-X-Y"));
        map.insert("x/Y".parse().unwrap(), packaged_path(root, "mixed-x-Y"));
    }
    if c.map == 2 {
        map.insert("Z".parse().unwrap(), packaged_path(root, "SHOUTING-Z"));
    }
    if let Some((pd, pos, puri)) = &c.prev {
        std::fs::write(src.join("package.toml"), descriptor_text(pd, pos, puri)).unwrap();
        let _ = package_composite_buildpack(&src, &dst, &map);
    }
    std::fs::write(src.join("package.toml"), &p).unwrap();
    let r = package_composite_buildpack(&src, &dst, &map);
    let replay = json!({"case": c});
    let mut v: Vec<Viol> = Vec::new();
    let missing = c.deps.iter().any(|d| (d == "libcnb:x/y" && (c.map == 1 || c.map == 3)) || (d == "libcnb:z" && (c.map == 2 || c.map == 3)) || BAD_LIBCNB.contains(&d.as_str()));
    let outcome;
    match r {
        Err(e) => {
            outcome = "err".to_string();
            // whatever package.toml the destination holds after a refused descriptor (nothing, or the
            // one of an earlier call) is a normalised one: no libcnb: reference, no relative path
            if let Ok(text) = std::fs::read_to_string(dst.join("package.toml")) {
                let left: Vec<String> = toml::from_str::<toml::Table>(&text).ok().and_then(|d| d.get("dependencies").and_then(|d| d.as_array()).map(|a| a.iter().filter_map(|x| x.get("uri").and_then(|u| u.as_str()).map(String::from)).collect())).unwrap_or_default();
                if let Some(bad) = left.iter().find(|u| u.starts_with("libcnb:") || !(u.contains(':') || u.starts_with('/'))) {
                    v.push(("unnormalised-descriptor-left-after-error".into(), format!("{c:?}: the call failed ({e}) but the destination holds a package.toml with the dependency {bad:?}"), replay.clone()));
                }
            }
            if !missing {
                v.push(("valid-descriptor-rejected".into(), format!("{c:?}: {e}"), replay));
            }
        }
        Ok(()) => {
            outcome = "ok".to_string();
            if missing {
                let out = std::fs::read_to_string(dst.join("package.toml")).unwrap_or_default();
                v.push(("unknown-libcnb-id-accepted".into(), format!("{c:?}: a libcnb: id without a packaged location was accepted; wrote {out:?}"), replay));
                return (v, outcome);
            }
            let text = match std::fs::read_to_string(dst.join("package.toml")) {
                Ok(t) => t,
                Err(e) => {
                    v.push(("no-package-toml".into(), format!("{c:?}: {e}"), replay));
                    return (v, outcome);
                }
            };
            let doc: toml::Table = match toml::from_str(&text) {
                Ok(d) => d,
                Err(e) => {
                    v.push(("output-not-toml".into(), format!("{c:?}: {e}"), replay));
                    return (v, outcome);
                }
            };
            let got_deps: Vec<String> = doc.get("dependencies").and_then(|d| d.as_array()).map(|a| a.iter().map(|x| x.get("uri").and_then(|u| u.as_str()).unwrap_or("<none>").to_string()).collect()).unwrap_or_default();
            let want_deps: Vec<String> = c
                .deps
                .iter()
                .map(|d| {
                    if let Some(idn) = d.strip_prefix("libcnb:") {
                        packaged_path(root, idn).to_str().unwrap().to_string()
                    } else if d.contains(':') || d.starts_with('/') {
                        d.clone()
                    } else {
                        lexical(&src, d)
                    }
                })
                .collect();
            if got_deps.len() != want_deps.len() {
                v.push(("dependency-count-changed".into(), format!("{c:?}: wrote {got_deps:?}, expected {want_deps:?}"), replay.clone()));
            } else if got_deps != want_deps {
                let i = (0..got_deps.len()).find(|i| got_deps[*i] != want_deps[*i]).unwrap();
                let d = &c.deps[i];
                let sig = if d.starts_with("libcnb:") {
                    "libcnb-reference-wrong"
                } else if d.contains(':') || d.starts_with('/') {
                    "verbatim-uri-changed"
                } else if got_deps.iter().collect::<BTreeSet<_>>() == want_deps.iter().collect::<BTreeSet<_>>() {
                    "dependency-order-changed"
                } else {
                    "relative-path-wrong"
                };
                v.push((sig.into(), format!("{c:?}: wrote {got_deps:?}, expected {want_deps:?}").replace(root.to_str().unwrap(), "<root>"), replay.clone()));
            }
            let got_uri = doc.get("buildpack").and_then(|b| b.get("uri")).and_then(|u| u.as_str()).unwrap_or("<none>");
            if got_uri != c.bp_uri {
                v.push(("buildpack-uri-changed".into(), format!("{c:?}: buildpack.uri {got_uri:?}").replace(root.to_str().unwrap(), "<root>"), replay.clone()));
            }
            let got_os = doc.get("platform").and_then(|b| b.get("os")).and_then(|u| u.as_str()).unwrap_or("linux");
            if got_os != c.os.as_deref().unwrap_or("linux") {
                v.push(("platform-changed".into(), format!("{c:?}: platform.os {got_os:?}"), replay.clone()));
            }
            if toml::from_str::<PackageDescriptor>(&text).is_err() {
                v.push(("output-does-not-reparse".into(), format!("{c:?}: libcnb cannot read its own output {text:?}"), replay.clone()));
            }
            if std::fs::read_to_string(dst.join("buildpack.toml")).ok().as_deref() != Some(bptoml) {
                v.push(("buildpack-toml-not-copied".into(), format!("{c:?}: buildpack.toml differs"), replay));
            }
        }
    }
    (v, outcome)
}

fn rel_paths(max_segs: usize) -> Vec<String> {
    let alphabet = ["a", ".", "..", ""];
    let mut seqs: Vec<Vec<&str>> = vec![];
    let mut level: Vec<Vec<&str>> = vec![vec![]];
    for _ in 0..max_segs {
        let mut next = Vec::new();
        for s in &level {
            for a in alphabet {
                let mut n = s.clone();
                n.push(a);
                next.push(n);
            }
        }
        seqs.extend(next.clone());
        level = next;
    }
    let mut out = BTreeSet::new();
    // climbing: k parent references (more than any source directory is deep), alone and followed
    // by a normal segment, so that paths reach and pass the file-system root
    for k in 1..=9 {
        out.insert(vec![".."; k].join("/"));
        out.insert(format!("{}/x", vec![".."; k].join("/")));
        out.insert(format!("a/{}/x/", vec![".."; k].join("/")));
    }
    // percent-encoded octets in a segment: a path reference is copied segment by segment, an
    // encoded dot or separator is not a dot or a separator
    for p in ["bp%2Dtools", "a/java%2B17/x", "%2E%2E/y", "a/%2E/../b%2Fc", "a%20b/c", "%41/../%7Ex"] {
        out.insert(p.split('/').collect::<Vec<_>>().join("/"));
    }
    for s in seqs {
        let base = s.join("/");
        for lead in ["", "./"] {
            for trail in ["", "/"] {
                let p = format!("{lead}{base}{trail}");
                // outside the alphabet: empty string, absolute paths (covered as a fixed kind) and network-path references
                if p.is_empty() || p.starts_with('/') {
                    continue;
                }
                out.insert(p);
            }
        }
    }
    out.into_iter().collect()
}

pub fn run(args: &Args) {
    let mut rep = Reporter::new("C14", "exploration", args);
    if let Some(path) = &args.replay {
        let doc: serde_json::Value = serde_json::from_str(&std::fs::read_to_string(path).expect("replay file")).expect("json");
        let c: Case = serde_json::from_value(doc["replay"]["case"].clone()).unwrap();
        let (v, o) = run_case(&c);
        println!("{c:?} -> {o}");
        for (sig, what, r) in v {
            println!("DIFFERENCE: {what}");
            rep.violation(&sig, what, r);
        }
        rep.finish();
    }
    let max_len = if args.thorough() { 3 } else { 2 };
    let max_segs = if args.thorough() { 4 } else { 3 };
    let mut cases = Vec::new();
    // dependency tuples over the URI kinds
    let mut tuples: Vec<Vec<String>> = vec![vec![]];
    let mut level: Vec<Vec<String>> = vec![vec![]];
    for _ in 0..max_len {
        let mut next = Vec::new();
        for t in &level {
            for k in FIXED_KINDS {
                let mut n = t.clone();
                n.push(k.to_string());
                next.push(n);
            }
        }
        tuples.extend(next.clone());
        level = next;
    }
    // the fifth: every component looks like a file name with an extension
    let srcs = ["s", "deep/er/s", "w+s/u@h,x=y;z", "via-link/inner", "releases.d/meta.v1.2"];
    for t in &tuples {
        for map in 0..4u8 {
            for (i, src) in srcs.iter().enumerate() {
                // platform and buildpack uri rotate with the tuple (full product in thorough)
                let oss = [None, Some("linux".to_string()), Some("windows".to_string())];
                let uris = BP_URIS;
                if args.thorough() {
                    for os in &oss {
                        for u in uris {
                            cases.push(Case { deps: t.clone(), map, src: src.to_string(), os: os.clone(), bp_uri: u.to_string(), prev: None });
                        }
                    }
                } else {
                    let k = t.len() + map as usize + i;
                    cases.push(Case { deps: t.clone(), map, src: src.to_string(), os: oss[k % 3].clone(), bp_uri: uris[k % uris.len()].to_string(), prev: None });
                    if t.len() <= 1 && map == 0 {
                        // every buildpack uri with every short tuple
                        for u in uris {
                            cases.push(Case { deps: t.clone(), map, src: src.to_string(), os: oss[k % 3].clone(), bp_uri: u.to_string(), prev: None });
                        }
                    }
                }
            }
        }
    }
    for bad in BAD_LIBCNB {
        for map in [0u8, 3] {
            cases.push(Case { deps: vec![bad.to_string()], map, src: "s".into(), os: None, bp_uri: ".".into(), prev: None });
            cases.push(Case { deps: vec!["libcnb:z".into(), bad.to_string(), "docker://x/y".into()], map, src: "s".into(), os: None, bp_uri: ".".into(), prev: None });
        }
    }
    // relative path shapes
    let rels = rel_paths(max_segs);
    for r in &rels {
        for src in srcs {
            cases.push(Case { deps: vec![r.clone()], map: 0, src: src.to_string(), os: None, bp_uri: ".".into(), prev: None });
            cases.push(Case { deps: vec!["libcnb:z".into(), r.clone(), "docker://x/y".into()], map: 0, src: src.to_string(), os: None, bp_uri: ".".into(), prev: None });
        }
    }
    // histories: every ordered pair of descriptors packaged one after the other into the same destination
    let mut descs: Vec<(Vec<String>, Option<String>, String)> = Vec::new();
    for deps in [vec![], vec!["libcnb:z".to_string()], vec!["a/../b".to_string(), "docker://x/y".to_string()]] {
        for os in [None, Some("linux".to_string()), Some("windows".to_string())] {
            for u in [".", "docker://docker.io/x/meta"] {
                descs.push((deps.clone(), os.clone(), u.to_string()));
            }
        }
    }
    let mut pairs = 0u64;
    for a in &descs {
        for b in &descs {
            cases.push(Case { deps: b.0.clone(), map: 0, src: "s".into(), os: b.1.clone(), bp_uri: b.2.clone(), prev: Some(a.clone()) });
            pairs += 1;
        }
    }
    let results: Vec<_> = cases.par_iter().map(run_case).collect();
    let mut outcomes = BTreeSet::new();
    for (v, o) in results {
        outcomes.insert(o);
        for (sig, what, r) in v {
            rep.violation(&sig, what, r);
        }
    }
    let nontrivial = cases.iter().filter(|c| !c.deps.is_empty()).count() as u64;
    rep.cov("evaluations", cases.len() as u64);
    rep.cov("distinct_nontrivial", nontrivial);
    rep.cov("relative_path_shapes", rels.len() as u64);
    rep.cov("repackaging_pairs", pairs);
    rep.cov("dependency_tuples", tuples.len() as u64);
    rep.cov("distinct_outcomes", json!(outcomes));
    rep.cov("rule", "package.toml documents built from all ordered dependency tuples (repetition allowed) over 8 URI kinds (incl. a file: URI, copied verbatim) x id->path maps {complete, missing x/y, missing z, empty; where an id is missing, ids differing from it only in letter case are present} x 5 source locations (one whose components carry extensions, one with the URI-safe sub-delimiters + @ , = ;, one reached through a symbolic link), libcnb: references with an invalid or reserved id x platform x 7 buildpack uris (., ./, relative, parent-relative, absolute, docker, urn), plus every ordered pair of 18 descriptors packaged one after the other into the same destination (the second result must be what a fresh destination gives), plus every relative path of <= k segments over {a, ., .., empty} with/without leading ./ and trailing /, run through the real package_composite_buildpack; the written file is re-read generically and compared with the reference (lexical normalisation). non-trivial = at least one dependency");
    rep.cov("bound", json!({"max_tuple_len": max_len, "max_segments": max_segs}));
    rep.cov("exhaustive", true);
    rep.sample(json!(cases[cases.len() / 3]));
    rep.sample(json!(cases[cases.len() - 1]));
    rep.sample(json!(cases[7]));
    rep.assume("URI-safe characters only; percent escapes, empty and network-path (//host) references are outside the alphabet; the output is re-read with the toml crate's generic Value (TOML encoding itself is C07's subject)");
    rep.finish();
}
