//! C08 parser side: reads {"id","format","toml"} lines, parses each document with the real libcnb
//! types and emits accepted/rejected plus a field-by-field dump. Generation, mutation and the
//! comparison with the spec schema live in checks/c08.py.
use libcnb_data::buildpack::{Buildpack, BuildpackDescriptor, ComponentBuildpackDescriptor, CompositeBuildpackDescriptor};
use libcnb_data::buildpack_plan::BuildpackPlan;
use libcnb_data::launch::{Launch, WorkingDirectory};
use libcnb_data::layer_content_metadata::LayerContentMetadata;
use libcnb_data::package_descriptor::{PackageDescriptor, PlatformOs};
use libcnb_data::store::Store;
use serde_json::{Value, json};
use std::io::{BufRead, Write};
use vh::report::Args;
use vh::vbscript::toml_to_json;

fn md(t: &Option<toml::Table>) -> Value {
    t.as_ref().map(|t| toml_to_json(&toml::Value::Table(t.clone()))).unwrap_or(Value::Null)
}

fn bp(b: &Buildpack) -> Value {
    let mut sf: Vec<String> = b.sbom_formats.iter().map(|f| serde_json::to_value(f).unwrap().as_str().unwrap().to_string()).collect();
    sf.sort();
    json!({"id": b.id.to_string(), "name": b.name, "version": b.version.to_string(), "homepage": b.homepage, "clear_env": b.clear_env, "description": b.description,
        "keywords": b.keywords, "licenses": b.licenses.iter().map(|l| json!({"type": l.r#type, "uri": l.uri})).collect::<Vec<_>>(), "sbom_formats": sf})
}

fn component(d: &ComponentBuildpackDescriptor) -> Value {
    json!({"class": "component", "api": d.api.to_string(), "buildpack": bp(&d.buildpack),
        "stacks": d.stacks.iter().map(|s| json!({"id": s.id, "mixins": s.mixins})).collect::<Vec<_>>(),
        "targets": d.targets.iter().map(|t| json!({"os": t.os, "arch": t.arch, "variant": t.variant, "distros": t.distros.iter().map(|x| json!({"name": x.name, "version": x.version})).collect::<Vec<_>>()})).collect::<Vec<_>>(),
        "metadata": md(&d.metadata)})
}
fn composite(d: &CompositeBuildpackDescriptor) -> Value {
    json!({"class": "composite", "api": d.api.to_string(), "buildpack": bp(&d.buildpack),
        "order": d.order.iter().map(|o| json!({"group": o.group.iter().map(|g| json!({"id": g.id.to_string(), "version": g.version.to_string(), "optional": g.optional})).collect::<Vec<_>>()})).collect::<Vec<_>>(),
        "metadata": md(&d.metadata)})
}

fn parse(format: &str, text: &str) -> Value {
    macro_rules! r {
        ($e:expr, $dump:expr) => {
            match $e {
                Ok(v) => json!({"ok": true, "dump": $dump(&v)}),
                Err(e) => json!({"ok": false, "err": e.to_string().lines().last().unwrap_or("").to_string()}),
            }
        };
    }
    match format {
        "buildpack" => {
            let any = toml::from_str::<BuildpackDescriptor>(text);
            let direct_component = toml::from_str::<ComponentBuildpackDescriptor>(text).is_ok();
            let direct_composite = toml::from_str::<CompositeBuildpackDescriptor>(text).is_ok();
            let mut v = r!(any, |d: &BuildpackDescriptor| match d {
                BuildpackDescriptor::Component(c) => component(c),
                BuildpackDescriptor::Composite(c) => composite(c),
            });
            v["direct_component"] = json!(direct_component);
            v["direct_composite"] = json!(direct_composite);
            v
        }
        "plan" => r!(toml::from_str::<BuildpackPlan>(text), |p: &BuildpackPlan| json!({"entries": p.entries.iter().map(|e| json!({"name": e.name, "metadata": toml_to_json(&toml::Value::Table(e.metadata.clone()))})).collect::<Vec<_>>()})),
        "layer" => r!(toml::from_str::<LayerContentMetadata>(text), |l: &LayerContentMetadata| json!({"types": l.types.map(|t| json!({"launch": t.launch, "build": t.build, "cache": t.cache})), "metadata": md(&l.metadata)})),
        "launch" => r!(toml::from_str::<Launch>(text), |l: &Launch| json!({
            "processes": l.processes.iter().map(|p| json!({"type": p.r#type.to_string(), "command": p.command, "args": p.args, "default": p.default, "working-dir": match &p.working_directory { WorkingDirectory::App => Value::Null, WorkingDirectory::Directory(d) => json!(d) }})).collect::<Vec<_>>(),
            "labels": l.labels.iter().map(|x| json!({"key": x.key, "value": x.value})).collect::<Vec<_>>(),
            "slices": l.slices.iter().map(|x| json!({"paths": x.path_globs})).collect::<Vec<_>>()})),
        "store" => r!(toml::from_str::<Store>(text), |s: &Store| json!({"metadata": toml_to_json(&toml::Value::Table(s.metadata.clone()))})),
        "package" => r!(toml::from_str::<PackageDescriptor>(text), |p: &PackageDescriptor| json!({"buildpack": {"uri": p.buildpack.uri.to_string()}, "dependencies": p.dependencies.iter().map(|d| json!({"uri": d.uri.to_string()})).collect::<Vec<_>>(), "platform": {"os": if p.platform.os == PlatformOs::Linux { "linux" } else { "windows" }}})),
        other => json!({"ok": false, "err": format!("unknown format {other}")}),
    }
}

pub fn run(args: &Args) {
    let input = args.rest.first().expect("input jsonl");
    let out = args.out.clone().expect("--out");
    let f = std::io::BufReader::new(std::fs::File::open(input).unwrap());
    let mut o = std::io::BufWriter::new(std::fs::File::create(out).unwrap());
    for line in f.lines() {
        let line = line.unwrap();
        let c: Value = serde_json::from_str(&line).unwrap();
        let mut v = parse(c["format"].as_str().unwrap(), c["toml"].as_str().unwrap());
        v["id"] = c["id"].clone();
        // the same document through the file reader the runtime uses
        writeln!(o, "{v}").unwrap();
    }
    o.flush().unwrap();
}
