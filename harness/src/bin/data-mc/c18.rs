//! C18 — inventory resolution returns a maximal matching artifact; TOML round trip; checksum
//! grammar. State graph of `Inventory::push` sequences up to a length bound over a collapsed
//! artifact domain, resolution invariant evaluated for every query in every state.
use libherokubuildpack::inventory::Inventory;
use libherokubuildpack::inventory::artifact::{Arch, Artifact, Os};
use libherokubuildpack::inventory::checksum::{Checksum, Digest};
use libherokubuildpack::inventory::version::ArtifactRequirement;
use rayon::prelude::*;
use serde::{Deserialize, Serialize};
use serde_json::json;
use sha2::{Sha256, Sha512};
use std::cmp::Ordering;
use std::collections::BTreeSet;
use vh::report::{Args, Reporter};

#[derive(Debug)]
struct TDigest;
impl Digest for TDigest {
    fn name_compatible(name: &str) -> bool {
        name == "t"
    }
    fn length_compatible(len: usize) -> bool {
        len == 2
    }
}

/// partially ordered version: the diamond (0,0) < (0,1),(1,0) < (1,1); (0,1) || (1,0); plus an isolated element (9,9)
#[derive(Debug, Clone, Copy, PartialEq, Eq, Serialize, Deserialize)]
struct PV(u8, u8);
impl PartialOrd for PV {
    fn partial_cmp(&self, o: &Self) -> Option<Ordering> {
        if self.0 == 8 || o.0 == 8 {
            // the NaN-like element: partial_cmp is None even against itself (the method's own docs
            // name f32::NAN as the motivating case); it still matches requirements, and nothing exceeds it
            None
        } else if self == o {
            Some(Ordering::Equal)
        } else if self.0 == 9 || o.0 == 9 {
            // the isolated element: incomparable to everything else (like NaN, but equal to itself)
            None
        } else if self.0 <= o.0 && self.1 <= o.1 {
            Some(Ordering::Less)
        } else if self.0 >= o.0 && self.1 >= o.1 {
            Some(Ordering::Greater)
        } else {
            None
        }
    }
}
const DIAMOND: [PV; 6] = [PV(0, 0), PV(0, 1), PV(1, 0), PV(1, 1), PV(9, 9), PV(8, 8)];

/// requirement = subset of the version domain (bitmask over domain index) + metadata predicate
struct Req<V> {
    domain: Vec<V>,
    mask: u32,
    only_tagged: bool,
}
macro_rules! req_impl {
    ($t:ty) => {
        impl ArtifactRequirement<$t, bool> for Req<$t> {
            fn satisfies_metadata(&self, m: &bool) -> bool {
                !self.only_tagged || *m
            }
            fn satisfies_version(&self, v: &$t) -> bool {
                self.domain.iter().position(|d| d == v).map(|i| self.mask & (1 << i) != 0).unwrap_or(false)
            }
        }
    };
}
req_impl!(u32);
req_impl!(PV);

/// artifact kind = (match class 0 matching / 1 wrong os / 2 wrong arch, version index, tagged)
#[derive(Clone, Copy, Debug, PartialEq, Eq, Serialize, Deserialize)]
struct Kind {
    class: u8,
    v: u8,
    tagged: bool,
}

/// (os, arch) of the queried platform and of the two non-matching classes, under two role assignments:
/// A: query linux/amd64, other os darwin/amd64, other arch linux/arm64;
/// B: query darwin/arm64, other os linux/arm64, other arch darwin/amd64
fn platform(roles: u8, class: u8) -> (Os, Arch) {
    match (roles, class) {
        (0, 0) => (Os::Linux, Arch::Amd64),
        (0, 1) => (Os::Darwin, Arch::Amd64),
        (0, _) => (Os::Linux, Arch::Arm64),
        (_, 0) => (Os::Darwin, Arch::Arm64),
        (_, 1) => (Os::Linux, Arch::Arm64),
        (_, _) => (Os::Darwin, Arch::Amd64),
    }
}

fn mk_art<V: Clone>(k: Kind, domain: &[V], serial: usize, roles: u8) -> Artifact<V, TDigest, bool> {
    Artifact {
        version: domain[k.v as usize].clone(),
        os: platform(roles, k.class).0,
        arch: platform(roles, k.class).1,
        url: format!("u{serial}"),
        checksum: "t:00aa".parse::<Checksum<TDigest>>().unwrap(),
        metadata: k.tagged,
    }
}

type Viol = (String, String, serde_json::Value);

/// judge one inventory (sequence of kinds) for all queries
fn judge<V: Clone + PartialOrd + PartialEq + std::fmt::Debug>(seq: &[Kind], domain: &[V], total: bool, which: &str, resolve: impl Fn(&Inventory<V, TDigest, bool>, &Req<V>, Os, Arch) -> Option<String>) -> (u64, Vec<Viol>) {
    let mut v = Vec::new();
    let mut n = 0;
    for roles in 0..2u8 {
    let mut inv = Inventory::<V, TDigest, bool>::new();
    for (i, k) in seq.iter().enumerate() {
        inv.push(mk_art(*k, domain, i, roles));
    }
    let (qos, qarch) = platform(roles, 0);
    let which = &if roles == 0 { which.to_string() } else { format!("{which}[query darwin/arm64]") };
    let resolve = |inv: &Inventory<V, TDigest, bool>, req: &Req<V>| resolve(inv, req, qos, qarch);
    for mask in 0..(1u32 << domain.len()) {
        for only_tagged in [false, true] {
            n += 1;
            let req = Req { domain: domain.to_vec(), mask, only_tagged };
            let got = resolve(&inv, &req);
            let matching: Vec<usize> = seq.iter().enumerate().filter(|(_, k)| k.class == 0 && mask & (1 << k.v) != 0 && (!only_tagged || k.tagged)).map(|(i, _)| i).collect();
            let replay = json!({"which": which, "seq": seq, "mask": mask, "only_tagged": only_tagged});
            match got {
                None => {
                    if !matching.is_empty() {
                        v.push((format!("{which}:none-although-match-exists"), format!("{which} on {seq:?} req mask {mask:b} tagged={only_tagged}: returned nothing, matching artifacts {matching:?}"), replay));
                    }
                }
                Some(url) => {
                    let idx: usize = url[1..].parse().unwrap();
                    if !matching.contains(&idx) {
                        v.push((format!("{which}:non-matching-artifact"), format!("{which} on {seq:?} req mask {mask:b} tagged={only_tagged}: returned artifact #{idx} which does not match os/arch/requirement"), replay));
                    } else {
                        let rv = &domain[seq[idx].v as usize];
                        let exceeded = matching.iter().any(|j| domain[seq[*j].v as usize].partial_cmp(rv) == Some(Ordering::Greater));
                        if exceeded {
                            v.push((format!("{which}:not-maximal"), format!("{which} on {seq:?} req mask {mask:b} tagged={only_tagged}: returned #{idx} (version {rv:?}) although a matching artifact has a greater version"), replay));
                        }
                    }
                }
            }
        }
    }
    }
    let _ = total;
    (n, v)
}

fn kinds(nversions: u8) -> Vec<Kind> {
    let mut v = Vec::new();
    for class in 0..3 {
        for ver in 0..nversions {
            for tagged in [false, true] {
                // tagging only matters for matching artifacts; keep the domain small
                if class != 0 && tagged {
                    continue;
                }
                v.push(Kind { class, v: ver, tagged });
            }
        }
    }
    v
}

fn sequences(alphabet: &[Kind], max_len: usize) -> Vec<Vec<Kind>> {
    let mut out = vec![vec![]];
    let mut level: Vec<Vec<Kind>> = vec![vec![]];
    for _ in 0..max_len {
        let mut next = Vec::with_capacity(level.len() * alphabet.len());
        for s in &level {
            for k in alphabet {
                let mut n = s.clone();
                n.push(*k);
                next.push(n);
            }
        }
        out.extend(next.iter().cloned());
        level = next;
    }
    out
}

/// the second acceptance path: a checksum inside a TOML document (what an inventory file is), read through serde
fn serde_accepts<D: Digest>(s: &str) -> bool {
    #[derive(Deserialize)]
    #[serde(bound = "")]
    struct W<D: Digest> {
        #[allow(dead_code)]
        c: Checksum<D>,
    }
    let text = format!("c = {}\n", toml::Value::String(s.to_string()));
    toml::from_str::<W<D>>(&text).is_ok()
}

fn checksum_grammar(rep: &mut Reporter) -> (u64, u64) {
    // (1) 2-byte digest "t": all strings of length <= 7
    let alpha = ['t', ':', 'a', 'F', '0', 'g', ' ', '\n', '+'];
    let mut total = 0u64;
    let mut accepted = 0u64;
    let mut strings: Vec<String> = vec![String::new()];
    let mut level = vec![String::new()];
    for _ in 0..7 {
        let mut next = Vec::with_capacity(level.len() * alpha.len());
        for s in &level {
            for c in alpha {
                let mut n = s.clone();
                n.push(c);
                next.push(n);
            }
        }
        strings.extend(next.iter().cloned());
        level = next;
    }
    let res: Vec<(bool, bool, bool, &String)> = strings.par_iter().map(|s| {
        let got = s.parse::<Checksum<TDigest>>().is_ok();
        let b = s.as_bytes();
        let want = b.len() == 6 && &b[..2] == b"t:" && b[2..].iter().all(|c| c.is_ascii_hexdigit());
        (got, serde_accepts::<TDigest>(s), want, s)
    }).collect();
    for (got, got_serde, want, s) in res {
        total += 2;
        if got {
            accepted += 1;
        }
        if got != want {
            rep.violation(if got { "checksum:accepts-invalid" } else { "checksum:rejects-valid" }, format!("Checksum<2-byte digest 't'>::from_str({s:?}) accepted={got}, grammar says {want}"), json!({"checksum": s, "digest": "t"}));
        }
        if got_serde != want {
            rep.violation(if got_serde { "checksum-serde:accepts-invalid" } else { "checksum-serde:rejects-valid" }, format!("Checksum<2-byte digest 't'> deserialised from a TOML string {s:?}: accepted={got_serde}, grammar says {want}"), json!({"checksum": s, "digest": "t"}));
        }
    }
    // (2) sha256 / sha512 around the valid lengths with single-position replacements
    for (is512, name, hexlen) in [(false, "sha256", 64usize), (true, "sha512", 128usize)] {
        for prefix in ["sha256", "sha512", "SHA256", ""] {
            for sep in [":", "", "::"] {
                for len in [0usize, 62, 63, 64, 65, 66, 126, 127, 128, 129, 130] {
                    let base: String = "a".repeat(len);
                    let mut variants = vec![base.clone()];
                    for pos in 0..len {
                        for c in ['F', '0', 'g', ' ', ':', '+', '-'] {
                            let mut b: Vec<char> = base.chars().collect();
                            b[pos] = c;
                            variants.push(b.into_iter().collect());
                        }
                    }
                    // decorations around an otherwise untouched string: leading/trailing white space
                    let plain = format!("{prefix}{sep}{base}");
                    // a sign in front of every byte pair (number parsers accept it, hex does not)
                    if len % 2 == 0 && len > 0 {
                        variants.push("+a".repeat(len / 2));
                        variants.push("-a".repeat(len / 2));
                    }
                    let mut all: Vec<String> = variants.into_iter().map(|body| format!("{prefix}{sep}{body}")).collect();
                    for ws in [" ", "\n", "\t", "\r\n", "\u{a0}"] {
                        all.push(format!("{plain}{ws}"));
                        all.push(format!("{ws}{plain}"));
                    }
                    for s in all {
                        let got = if is512 { s.parse::<Checksum<Sha512>>().is_ok() } else { s.parse::<Checksum<Sha256>>().is_ok() };
                        let got_serde = if is512 { serde_accepts::<Sha512>(&s) } else { serde_accepts::<Sha256>(&s) };
                        // judged on the final string (a replacement may itself create the separator)
                        let want = s.strip_prefix(name).and_then(|r| r.strip_prefix(':')).map(|h| h.len() == hexlen && h.chars().all(|c| c.is_ascii_hexdigit())).unwrap_or(false);
                        total += 1;
                        if got {
                            accepted += 1;
                        }
                        if got != want {
                            rep.violation(if got { "checksum:accepts-invalid" } else { "checksum:rejects-valid" }, format!("Checksum<{name}>::from_str({s:?}) accepted={got}, grammar says {want}"), json!({"checksum": s, "digest": name}));
                        }
                        total += 1;
                        if got_serde != want {
                            rep.violation(if got_serde { "checksum-serde:accepts-invalid" } else { "checksum-serde:rejects-valid" }, format!("Checksum<{name}> deserialised from a TOML string {s:?}: accepted={got_serde}, grammar says {want}"), json!({"checksum": s, "digest": name}));
                        }
                    }
                }
            }
        }
    }
    (total, accepted)
}

/// grammar-valid checksums of every digest type used in this process, parsed in a fixed order and
/// again in reverse: acceptance must not depend on which digest type was parsed before
fn order_independence(rep: &mut Reporter) -> bool {
    let mut ok = true;
    let t = "t:00aa".to_string();
    let s256 = format!("sha256:{}", "0f".repeat(32));
    let s512 = format!("sha512:{}", "0f".repeat(64));
    for round in 0..2 {
        let mut results = vec![("t", t.parse::<Checksum<TDigest>>().is_ok()), ("sha256", s256.parse::<Checksum<Sha256>>().is_ok()), ("sha512", s512.parse::<Checksum<Sha512>>().is_ok())];
        if round == 1 {
            results = vec![("sha512", s512.parse::<Checksum<Sha512>>().is_ok()), ("sha256", s256.parse::<Checksum<Sha256>>().is_ok()), ("t", t.parse::<Checksum<TDigest>>().is_ok())];
        }
        for (name, accepted) in results {
            if !accepted {
                ok = false;
                rep.violation("checksum:rejects-valid-after-other-digest", format!("a valid {name} checksum is rejected after checksums of other digest types were parsed in the same process"), json!({"checksum_order": name}));
            }
        }
    }
    ok
}

fn toml_roundtrip(rep: &mut Reporter) -> u64 {
    type Inv = Inventory<semver::Version, Sha256, Option<std::collections::BTreeMap<String, String>>>;
    let urls = ["https://e.com/a", "", "a b", "q\"uote", "back\\slash", "new\nline", "tab\t", "é😀", "'''", "# = [x]", "\u{0}\u{7f}", "blanks before a break: \nsecond \t\n\u{a0}\nlast  "];
    let versions = ["1.0.0", "0.0.0", "10.2.3-rc.1+build"];
    let mut md = std::collections::BTreeMap::new();
    md.insert("k".to_string(), "v\"\n".to_string());
    md.insert("n e".to_string(), "-1".to_string());
    let metas = [None, Some(md)];
    let mut arts = Vec::new();
    for ver in versions {
        for os in [Os::Linux, Os::Darwin] {
            for arch in [Arch::Amd64, Arch::Arm64] {
                for url in urls {
                    for m in &metas {
                        arts.push(Artifact { version: semver::Version::parse(ver).unwrap(), os, arch, url: url.to_string(), checksum: format!("sha256:{}", "0f".repeat(32)).parse::<Checksum<Sha256>>().unwrap(), metadata: m.clone() });
                    }
                }
            }
        }
    }
    let mut n = 0;
    let check = |inv: &Inv, rep: &mut Reporter| {
        let text = inv.to_string();
        match text.parse::<Inv>() {
            Err(e) => rep.violation("inventory-toml:reparse-failed", format!("inventory rendered as {text:?} does not parse: {e}"), json!({"toml": text})),
            Ok(back) => {
                if back.artifacts != inv.artifacts {
                    rep.violation("inventory-toml:roundtrip-differs", format!("inventory rendered as {text:?} parses to different artifacts"), json!({"toml": text}));
                }
            }
        }
    };
    check(&Inv::new(), rep);
    for a in &arts {
        n += 1;
        let mut inv = Inv::new();
        inv.push(a.clone());
        check(&inv, rep);
    }
    // all ordered pairs over a thinned list
    let thin: Vec<_> = arts.iter().step_by(7).cloned().collect();
    for a in &thin {
        for b in &thin {
            n += 1;
            let mut inv = Inv::new();
            inv.push(a.clone());
            inv.push(b.clone());
            check(&inv, rep);
        }
    }
    n
}

pub fn run(args: &Args) {
    let mut rep = Reporter::new("C18", "exploration", args);
    if let Some(path) = &args.replay {
        let doc: serde_json::Value = serde_json::from_str(&std::fs::read_to_string(path).expect("replay file")).expect("json");
        let r = &doc["replay"];
        if let Some(cs) = r["checksum"].as_str() {
            println!("t: {:?}", cs.parse::<Checksum<TDigest>>().is_ok());
            println!("sha256: {:?}", cs.parse::<Checksum<Sha256>>().map(|_| ()));
            println!("sha512: {:?}", cs.parse::<Checksum<Sha512>>().map(|_| ()));
            rep.violation("replayed", "see output above".into(), json!({}));
        } else if r.get("seq").is_some() {
            let seq: Vec<Kind> = serde_json::from_value(r["seq"].clone()).unwrap();
            let which = r["which"].as_str().unwrap();
            let v = run_one(&seq, which);
            for (sig, what, rr) in v {
                println!("DIFFERENCE: {what}");
                rep.violation(&sig, what, rr);
            }
        }
        rep.finish();
    }
    let max_len = if args.thorough() { 5 } else { 4 };
    // (i) total order, versions {1,2,3}
    let k_total = kinds(3);
    let k_partial = kinds(6);
    let seq_total = sequences(&k_total, max_len);
    let seq_partial = sequences(&k_partial, if args.thorough() { 4 } else { 3 });
    let mut queries = 0u64;
    let r1: Vec<_> = seq_total.par_iter().map(|s| {
        let mut v = run_one(s, "resolve");
        v.extend(run_one(s, "partial_resolve(total)"));
        v
    }).collect();
    queries += seq_total.len() as u64 * 2 * 16 * 2;
    let r2: Vec<_> = seq_partial.par_iter().map(|s| run_one(s, "partial_resolve(diamond)")).collect();
    queries += seq_partial.len() as u64 * 128 * 2;
    for v in r1.into_iter().chain(r2).flatten() {
        rep.violation(&v.0, v.1, v.2);
    }
    let (cs_total, cs_acc) = checksum_grammar(&mut rep);
    let rt = if order_independence(&mut rep) { toml_roundtrip(&mut rep) } else { 0 };
    let inventories = (seq_total.len() + seq_partial.len()) as u64;
    rep.cov("evaluations", queries + cs_total + rt);
    rep.cov("inventories", inventories);
    rep.cov("resolution_queries", queries);
    rep.cov("checksum_strings", cs_total);
    rep.cov("checksum_strings_accepted", cs_acc);
    rep.cov("toml_roundtrips", rt);
    let nontrivial = seq_total.iter().filter(|s| s.iter().filter(|k| k.class == 0).count() >= 2).count() as u64 + seq_partial.iter().filter(|s| s.iter().filter(|k| k.class == 0).count() >= 2).count() as u64;
    rep.cov("distinct_nontrivial", nontrivial);
    rep.cov("rule", "all sequences (order matters) of <= L artifacts over {matching, wrong os, wrong arch} x versions x tagged (under two platform role assignments: query linux/amd64 and query darwin/arm64), pushed through the real Inventory::push; for each, every requirement (subset of the version domain x metadata predicate) through resolve (total order 1<2<3), partial_resolve on the same, and partial_resolve on the 4-element diamond partial order extended by an isolated element and a NaN-like element (partial_cmp None even against itself); non-trivial = inventories with >= 2 os/arch-matching artifacts. Checksums: all strings of length <= 7 over {t : a F 0 g space LF +} for a 2-byte digest 't', and prefix x separator x length x single-position replacement grids (plus leading/trailing white space) around 64/128 for Sha256/Sha512, each through BOTH acceptance paths (FromStr and serde deserialisation from a TOML document). TOML: inventories of <= 2 artifacts over payload urls x versions x os x arch x metadata");
    rep.cov("bound", json!({"max_inventory_len_total": max_len, "max_inventory_len_partial": if args.thorough() {4} else {3}, "artifact_kinds_total": k_total.len(), "artifact_kinds_partial": k_partial.len()}));
    rep.cov("exhaustive", true);
    rep.sample(json!({"inventory": seq_total[seq_total.len() - 1], "queries": "all 8 version subsets x 2 metadata predicates"}));
    rep.sample(json!({"inventory_diamond": seq_partial[seq_partial.len() / 2]}));
    rep.sample(json!({"checksum_strings": ["t:00aF", "t:0g00", "sha256::aaaa…", "SHA256:aaaa…"]}));
    rep.assume("which of several maximal (or equal-version) artifacts is returned is not judged");
    rep.finish();
}

fn run_one(seq: &[Kind], which: &str) -> Vec<Viol> {
    match which {
        "resolve" => {
            let domain: Vec<u32> = vec![1, 2, 3];
            judge(seq, &domain, true, which, |inv, req, os, arch| inv.resolve(os, arch, req).map(|a| a.url.clone())).1
        }
        "partial_resolve(total)" => {
            let domain: Vec<u32> = vec![1, 2, 3];
            judge(seq, &domain, true, which, |inv, req, os, arch| inv.partial_resolve(os, arch, req).map(|a| a.url.clone())).1
        }
        _ => judge(seq, &DIAMOND, false, which, |inv, req, os, arch| inv.partial_resolve(os, arch, req).map(|a| a.url.clone())).1,
    }
}

#[allow(dead_code)]
fn _unused(_: BTreeSet<u8>) {}
