//! Explorers for the data / packaging properties C13 C14 C18 (and generators for C07 C08 C09).
mod c07;
mod c08;
mod c09;
mod c13;
mod c14;
mod c18;

use vh::report::Args;

fn main() {
    let args = Args::parse();
    match args.sub.as_str() {
        "c07gen" => c07::generate(&args),
        "c07-execd" => c07::execd_helper(&args),
        "c08parse" => c08::run(&args),
        "c09" => c09::run(&args),
        "c13" => c13::run(&args),
        "c14" => c14::run(&args),
        "c18" => c18::run(&args),
        other => {
            eprintln!("unknown subcommand {other}");
            std::process::exit(2);
        }
    }
}
