//! C07 generator: builds documents through the public builders/types, writes them with the real
//! `libcnb::write_toml_file` (exec.d: `write_exec_d_program_output` on fd 3 of a helper process)
//! and emits one JSON line per case: the *intended* document (recorded from the builder inputs,
//! not from the built struct), the bytes written, serialisation errors and libcnb's own read-back
//! verdict. The Python oracle (checks/c07.py) parses the bytes with tomllib and compares.
use libcnb_data::build_plan::{BuildPlanBuilder, Require};
use libcnb_data::launch::{Label, Launch, LaunchBuilder, ProcessBuilder, Slice, WorkingDirectory};
use libcnb_data::layer_content_metadata::{LayerContentMetadata, LayerTypes};
use libcnb_data::package_descriptor::{PackageDescriptor, PackageDescriptorBuildpackReference, PackageDescriptorDependency, Platform, PlatformOs};
use libcnb_data::store::Store;
use serde_json::{Value, json};
use std::io::Write;
use std::path::PathBuf;
use vh::report::Args;
use vh::snapshot::Scratch;

// the last two: text that looks like TOML structure inside a multi-line string (blank line + table header, key = value lines)
pub const PAYLOADS: [&str; 20] = ["", "a", "a b", "\"", "\\", "'''", "\"\"\"", "\n", "\r\n", "\t", "\u{0}", "\u{1f}", "\u{7f}", "é", "😀", "#", "=", "[x]", "a\n\n[x]\nb = 1\n\n[[y]]\n", "k = \"v\"\n# c\n\n"];

/// (toml value, tagged json) pairs: every TOML value kind, depth <= 2
pub fn gen_values() -> Vec<(toml::Value, Value)> {
    use toml::Value as T;
    let mut v: Vec<(T, Value)> = Vec::new();
    for s in PAYLOADS {
        v.push((T::String(s.into()), json!(["s", s])));
    }
    for i in [0i64, -1, 42, i64::MAX, i64::MIN] {
        v.push((T::Integer(i), json!(["i", i])));
    }
    for (f, r) in [(1.5f64, "1.5"), (-0.0, "-0.0"), (1e100, "1e100"), (f64::INFINITY, "inf"), (f64::NEG_INFINITY, "-inf"), (f64::NAN, "nan")] {
        v.push((T::Float(f), json!(["f", r])));
    }
    v.push((T::Boolean(true), json!(["b", true])));
    v.push((T::Boolean(false), json!(["b", false])));
    for d in ["1979-05-27T07:32:00Z", "1979-05-27T00:32:00.999999-07:00", "1979-05-27T07:32:00", "1979-05-27", "07:32:00"] {
        v.push((T::Datetime(d.parse().unwrap()), json!(["d", d])));
    }
    let s = (T::String("x\"y".into()), json!(["s", "x\"y"]));
    let i = (T::Integer(7), json!(["i", 7]));
    let tab = |items: Vec<(&str, (T, Value))>| -> (T, Value) {
        let mut t = toml::Table::new();
        let mut j = serde_json::Map::new();
        for (k, (tv, jv)) in items {
            t.insert(k.into(), tv);
            j.insert(k.into(), jv);
        }
        (T::Table(t), json!(["t", j]))
    };
    let arr = |items: Vec<(T, Value)>| -> (T, Value) {
        let (a, b): (Vec<T>, Vec<Value>) = items.into_iter().unzip();
        (T::Array(a), json!(["a", b]))
    };
    v.push(arr(vec![]));
    v.push(arr(vec![i.clone(), (T::Integer(8), json!(["i", 8]))]));
    v.push(arr(vec![i.clone(), s.clone()]));
    v.push(arr(vec![arr(vec![i.clone()]), arr(vec![])]));
    v.push(arr(vec![tab(vec![("k", i.clone())]), tab(vec![("j", s.clone())])]));
    v.push(tab(vec![]));
    v.push(tab(vec![("k", s.clone())]));
    v.push(tab(vec![("a b", i.clone()), ("", s.clone()), ("é", (T::Boolean(true), json!(["b", true])))]));
    v.push(tab(vec![("n", tab(vec![("m", i.clone())])), ("l", arr(vec![s.clone()]))]));
    v
}

struct Out {
    f: std::io::BufWriter<std::fs::File>,
    n: u64,
    dir: Scratch,
}

impl Out {
    fn case<T: serde::Serialize>(&mut self, kind: &str, trace: String, intended: Value, value: &T, readback: impl Fn(&str) -> String, expect_error: bool) {
        let path = self.dir.path.join("doc.toml");
        // every second case overwrites an existing, much longer document: the file must hold the
        // new document only
        let _ = std::fs::remove_file(&path);
        if self.n % 2 == 0 {
            let old: String = (0..40).map(|i| format!("previous_key_{i} = \"previous value {i}\"\n")).collect();
            std::fs::write(&path, old).unwrap();
        }
        let r = libcnb::write_toml_file(value, &path);
        let (toml, err) = match r {
            Ok(()) => (std::fs::read_to_string(&path).ok(), None),
            Err(e) => (None, Some(e.to_string())),
        };
        let rb = match &toml {
            Some(t) => readback(t),
            None => "n/a".into(),
        };
        self.emit(json!({"id": self.n, "kind": kind, "trace": trace, "intended": intended, "toml": toml, "ser_error": err, "readback": rb, "expect_error": expect_error}));
    }
    /// a document written by some other libcnb call than write_toml_file (layer APIs)
    fn case_text(&mut self, kind: &str, trace: String, intended: Value, toml: Option<String>, err: Option<String>, readback: impl Fn(&str) -> String) {
        let rb = match &toml {
            Some(t) => readback(t),
            None => "n/a".into(),
        };
        self.emit(json!({"id": self.n, "kind": kind, "trace": trace, "intended": intended, "toml": toml, "ser_error": err, "readback": rb, "expect_error": false}));
    }
    fn emit(&mut self, v: Value) {
        writeln!(self.f, "{v}").unwrap();
        self.n += 1;
    }
}

#[derive(Clone)]
struct Proc {
    r#type: &'static str,
    command: Vec<String>,
    args: Vec<String>,
    default: Option<bool>,
    wd: Option<Option<String>>,
}

fn proc_json(p: &Proc) -> Value {
    json!({"type": p.r#type, "command": p.command, "args": p.args, "default": p.default.unwrap_or(false), "wd": match &p.wd { None | Some(None) => Value::Null, Some(Some(d)) => json!(d) }})
}

fn build_proc(p: &Proc) -> libcnb_data::launch::Process {
    let mut pb = ProcessBuilder::new(p.r#type.parse().unwrap(), p.command.clone());
    if p.args.len() == 1 {
        pb.arg(&p.args[0]);
    } else if p.args.len() == 3 {
        pb.arg(&p.args[0]);
        pb.args(p.args[1..].to_vec());
    } else if !p.args.is_empty() {
        pb.args(p.args.clone());
    }
    if let Some(d) = p.default {
        pb.default(d);
    }
    if p.args.len() == 3 {
        // the process builder is non-consuming as well: an intermediate build() changes nothing
        let _ = pb.build();
    }
    match &p.wd {
        None => {}
        Some(None) => {
            pb.working_directory(WorkingDirectory::App);
        }
        Some(Some(d)) => {
            pb.working_directory(WorkingDirectory::Directory(PathBuf::from(d)));
        }
    }
    pb.build()
}

fn launch_readback(intended: Launch) -> impl Fn(&str) -> String {
    move |t: &str| match toml::from_str::<Launch>(t) {
        Err(e) => format!("error: {e}"),
        Ok(l) => {
            let same = l.processes == intended.processes
                && l.labels.iter().map(|x| (&x.key, &x.value)).eq(intended.labels.iter().map(|x| (&x.key, &x.value)))
                && l.slices.iter().map(|x| &x.path_globs).eq(intended.slices.iter().map(|x| &x.path_globs));
            if same { "ok".into() } else { "differs".into() }
        }
    }
}

#[derive(Clone)]
enum LAct {
    P(usize),
    L(usize),
    S(usize),
    /// the plural builder methods (processes / labels / slices) with two elements each
    Pn,
    Ln,
    Sn,
    /// `build()` called on the builder mid-way (result discarded): the builders are documented as
    /// non-consuming, later calls and a second `build()` see everything added so far
    Build,
}

fn base_procs() -> Vec<Proc> {
    vec![
        Proc { r#type: "web", command: vec!["run".into()], args: vec![], default: None, wd: None },
        Proc { r#type: "worker", command: vec!["a".into(), "b c".into()], args: vec!["-v".into(), "x y".into()], default: Some(true), wd: Some(Some("/x y".into())) },
        Proc { r#type: "w.e_b-1", command: vec!["sh".into()], args: vec!["one".into()], default: Some(false), wd: Some(None) },
        Proc { r#type: "web", command: vec![], args: vec![], default: Some(true), wd: Some(Some(".".into())) },
        // three arguments: built as arg(..) followed by args([.., ..]) (mixed singular/plural calls)
        Proc { r#type: "mixed", command: vec!["m".into()], args: vec!["1".into(), "".into(), "3 3".into()], default: None, wd: None },
    ]
}

fn launch_cases(out: &mut Out, depth: usize) {
    let procs = base_procs();
    let labels = [("k", "v"), ("io.x/y z", "")];
    let slices = [vec!["*.txt".to_string()], vec![]];
    let acts: Vec<LAct> = (0..4).map(LAct::P).chain((0..2).map(LAct::L)).chain((0..2).map(LAct::S)).chain([LAct::Pn, LAct::Ln, LAct::Sn, LAct::Build]).collect();
    // all builder call sequences up to `depth`
    let mut seqs: Vec<Vec<LAct>> = vec![vec![]];
    let mut level: Vec<Vec<LAct>> = vec![vec![]];
    for _ in 0..depth {
        let mut next = Vec::new();
        for s in &level {
            for a in &acts {
                let mut n = s.clone();
                n.push(a.clone());
                next.push(n);
            }
        }
        seqs.extend(next.iter().cloned());
        level = next;
    }
    for s in seqs {
        let mut lb = LaunchBuilder::new();
        let (mut ip, mut il, mut is) = (vec![], vec![], vec![]);
        let mut trace = Vec::new();
        for a in &s {
            match a {
                LAct::P(i) => {
                    lb.process(build_proc(&procs[*i]));
                    ip.push(proc_json(&procs[*i]));
                    trace.push(format!("process#{i}"));
                }
                LAct::L(i) => {
                    lb.label(Label { key: labels[*i].0.into(), value: labels[*i].1.into() });
                    il.push(json!([labels[*i].0, labels[*i].1]));
                    trace.push(format!("label#{i}"));
                }
                LAct::S(i) => {
                    lb.slice(Slice { path_globs: slices[*i].clone() });
                    is.push(json!(slices[*i]));
                    trace.push(format!("slice#{i}"));
                }
                LAct::Pn => {
                    lb.processes([build_proc(&procs[1]), build_proc(&procs[4])]);
                    ip.push(proc_json(&procs[1]));
                    ip.push(proc_json(&procs[4]));
                    trace.push("processes[#1,#4]".into());
                }
                LAct::Ln => {
                    lb.labels(labels.iter().map(|(k, v)| Label { key: (*k).into(), value: (*v).into() }));
                    il.extend(labels.iter().map(|(k, v)| json!([k, v])));
                    trace.push("labels[#0,#1]".into());
                }
                LAct::Build => {
                    let _ = lb.build();
                    trace.push("build()".into());
                }
                LAct::Sn => {
                    lb.slices(slices.iter().map(|g| Slice { path_globs: g.clone() }));
                    is.extend(slices.iter().map(|g| json!(g)));
                    trace.push("slices[#0,#1]".into());
                }
            }
        }
        let l = lb.build();
        out.case("launch", trace.join(" "), json!({"processes": ip, "labels": il, "slices": is}), &l, launch_readback(l.clone()), false);
    }
    // payload substitution: one string position at a time
    for pl in PAYLOADS {
        let positions: Vec<(&str, Box<dyn Fn(&mut Proc, &mut (String, String), &mut Vec<String>)>)> = vec![
            ("command[0]", Box::new(|p, _, _| p.command[0] = pl.into())),
            ("command[1]", Box::new(|p, _, _| p.command[1] = pl.into())),
            ("args[1]", Box::new(|p, _, _| p.args[1] = pl.into())),
            ("working-dir", Box::new(|p, _, _| p.wd = Some(Some(pl.into())))),
            ("label.key", Box::new(|_, l, _| l.0 = pl.into())),
            ("label.value", Box::new(|_, l, _| l.1 = pl.into())),
            ("slice.glob", Box::new(|_, _, s| s[0] = pl.into())),
        ];
        for (pos, f) in positions {
            let mut p = procs[1].clone();
            let mut l = ("k".to_string(), "v".to_string());
            let mut s = vec!["g".to_string(), "h".to_string()];
            f(&mut p, &mut l, &mut s);
            let mut lb = LaunchBuilder::new();
            lb.process(build_proc(&p));
            lb.label(Label { key: l.0.clone(), value: l.1.clone() });
            lb.slice(Slice { path_globs: s.clone() });
            let la = lb.build();
            out.case("launch", format!("payload {pl:?} at {pos}"), json!({"processes": [proc_json(&p)], "labels": [[l.0, l.1]], "slices": [s]}), &la, launch_readback(la.clone()), false);
        }
    }
    // a working directory that TOML cannot represent (non-UTF-8) must be an error, not a lossy write
    {
        use std::os::unix::ffi::OsStringExt;
        let mut pb = ProcessBuilder::new("web".parse().unwrap(), ["x"]);
        pb.working_directory(WorkingDirectory::Directory(PathBuf::from(std::ffi::OsString::from_vec(vec![b'/', 0xff, 0xfe]))));
        let mut lb = LaunchBuilder::new();
        lb.process(pb.build());
        let la = lb.build();
        out.case("launch", "non-UTF-8 working directory".into(), json!({"processes": [], "labels": [], "slices": []}), &la, |_| "n/a".into(), true);
    }
}

fn plan_cases(out: &mut Out, depth: usize) {
    // actions: provides(a) provides(b) requires(a) requires(Require{b, metadata}) or
    let names = ["a", "b c"];
    let mut seqs: Vec<Vec<u8>> = vec![vec![]];
    let mut level: Vec<Vec<u8>> = vec![vec![]];
    for _ in 0..depth {
        let mut next = Vec::new();
        for s in &level {
            for a in 0..5u8 {
                let mut n = s.clone();
                n.push(a);
                next.push(n);
            }
        }
        seqs.extend(next.iter().cloned());
        level = next;
    }
    let md: toml::Table = toml::toml! { k = 1 };
    for s in seqs {
        let mut b = BuildPlanBuilder::new();
        let mut groups: Vec<(Vec<Value>, Vec<Value>)> = vec![(vec![], vec![])];
        let mut trace = Vec::new();
        for a in &s {
            let g = groups.last_mut().unwrap();
            match a {
                0 | 1 => {
                    b = b.provides(names[*a as usize]);
                    g.0.push(json!(names[*a as usize]));
                    trace.push(format!("provides({})", names[*a as usize]));
                }
                2 => {
                    b = b.requires(names[0]);
                    g.1.push(json!({"name": names[0], "metadata": ["t", {}]}));
                    trace.push("requires(a)".into());
                }
                3 => {
                    // metadata set twice on the same Require: the value set last is the metadata
                    let mut r = Require::new(names[1]);
                    r.metadata(toml::toml! { stale = true k = 0 }).unwrap();
                    r.metadata(md.clone()).unwrap();
                    b = b.requires(r);
                    g.1.push(json!({"name": names[1], "metadata": ["t", {"k": ["i", 1]}]}));
                    trace.push("requires(b c +metadata)".into());
                }
                _ => {
                    b = b.or();
                    groups.push((vec![], vec![]));
                    trace.push("or".into());
                }
            }
        }
        let plan = b.build();
        let gj: Vec<Value> = groups.iter().map(|(p, r)| json!({"provides": p, "requires": r})).collect();
        out.case("build_plan", trace.join(" "), json!({"groups": gj}), &plan, |_| "n/a".into(), false);
    }
    // payloads in names, metadata of every value kind
    for pl in PAYLOADS {
        let plan = BuildPlanBuilder::new().provides(pl).requires(pl).build();
        out.case("build_plan", format!("payload {pl:?} as provides/requires name"), json!({"groups": [{"provides": [pl], "requires": [{"name": pl, "metadata": ["t", {}]}]}]}), &plan, |_| "n/a".into(), false);
        let mut r = Require::new("x");
        let mut t = toml::Table::new();
        t.insert(pl.into(), toml::Value::String(pl.into()));
        r.metadata(t).unwrap();
        let plan = BuildPlanBuilder::new().requires(r).build();
        out.case("build_plan", format!("payload {pl:?} as metadata key and value"), json!({"groups": [{"provides": [], "requires": [{"name": "x", "metadata": ["t", {pl: ["s", pl]}]}]}]}), &plan, |_| "n/a".into(), false);
    }
    for (tv, jv) in gen_values() {
        let mut r = Require::new("x");
        let mut t = toml::Table::new();
        t.insert("v".into(), tv.clone());
        t.insert("z".into(), toml::Value::Integer(1));
        r.metadata(t).unwrap();
        let plan = BuildPlanBuilder::new().provides("p").requires(r).or().requires("y").build();
        out.case("build_plan", format!("metadata value {jv}"), json!({"groups": [{"provides": ["p"], "requires": [{"name": "x", "metadata": ["t", {"v": jv, "z": ["i", 1]}]}]}, {"provides": [], "requires": [{"name": "y", "metadata": ["t", {}]}]}]}), &plan, |_| "n/a".into(), false);
    }
    // unrepresentable: u64 above i64::MAX in metadata must be an error when attached
    {
        #[derive(serde::Serialize)]
        struct Big {
            n: u64,
        }
        let mut r = Require::new("x");
        let res = r.metadata(Big { n: u64::MAX });
        out.emit(json!({"id": out.n, "kind": "unrepresentable", "trace": "Require::metadata(u64::MAX)", "intended": null, "toml": null, "ser_error": res.as_ref().err().map(|e| e.to_string()), "readback": "n/a", "expect_error": true}));
    }
}

fn metadata_cases(out: &mut Out) {
    let types: Vec<Option<(bool, bool, bool)>> = std::iter::once(None).chain((0..8).map(|m| Some((m & 1 != 0, m & 2 != 0, m & 4 != 0)))).collect();
    let vals = gen_values();
    for (ti, t) in types.iter().enumerate() {
        for (vi, (tv, jv)) in vals.iter().enumerate() {
            // full product for a thinned value list, all values for two type settings
            if !(ti <= 1 || vi % 7 == 0) {
                continue;
            }
            let mut table = toml::Table::new();
            table.insert("v".into(), tv.clone());
            let lcm = LayerContentMetadata { types: t.map(|(launch, build, cache)| LayerTypes { launch, build, cache }), metadata: Some(table.clone()) };
            let want_t = t.map(|(l, b, c)| json!({"launch": l, "build": b, "cache": c}));
            let t2 = *t;
            let table2 = table.clone();
            out.case(
                "layer_metadata",
                format!("types {t:?} metadata v={jv}"),
                json!({"types": want_t, "metadata": ["t", {"v": jv}]}),
                &lcm,
                move |s: &str| match toml::from_str::<LayerContentMetadata>(s) {
                    Err(e) => format!("error: {e}"),
                    Ok(back) => {
                        let bt = back.types.map(|x| (x.launch, x.build, x.cache));
                        if bt == t2 && toml_eq(&back.metadata.map(toml::Value::Table), &Some(toml::Value::Table(table2.clone()))) { "ok".into() } else { "differs".into() }
                    }
                },
                false,
            );
        }
    }
    // metadata absent
    let lcm: LayerContentMetadata = LayerContentMetadata { types: Some(LayerTypes { launch: true, build: false, cache: true }), metadata: None };
    out.case("layer_metadata", "metadata None".into(), json!({"types": {"launch": true, "build": false, "cache": true}, "metadata": ["t", {}]}), &lcm, |_| "n/a".into(), false);
    for (tv, jv) in &vals {
        let mut table = toml::Table::new();
        table.insert("v".into(), tv.clone());
        table.insert("w w".into(), toml::Value::String("x".into()));
        let st = Store { metadata: table.clone() };
        let table2 = table.clone();
        out.case("store", format!("store v={jv}"), json!({"metadata": ["t", {"v": jv, "w w": ["s", "x"]}]}), &st, move |s: &str| match toml::from_str::<Store>(s) {
            Err(e) => format!("error: {e}"),
            Ok(b) => if toml_eq(&Some(toml::Value::Table(b.metadata)), &Some(toml::Value::Table(table2.clone()))) { "ok".into() } else { "differs".into() },
        }, false);
    }
    for pl in PAYLOADS {
        let mut table = toml::Table::new();
        table.insert(pl.into(), toml::Value::String(pl.into()));
        let st = Store { metadata: table };
        out.case("store", format!("payload {pl:?} as key and value"), json!({"metadata": ["t", {pl: ["s", pl]}]}), &st, |_| "n/a".into(), false);
    }
}

#[derive(serde::Serialize, serde::Deserialize, Clone, Debug)]
struct MV {
    v: toml::Value,
}

struct CreateWith(toml::Table);
#[allow(deprecated)]
impl libcnb::layer::Layer for CreateWith {
    type Buildpack = vh::layermodel::VB;
    type Metadata = toml::Table;
    fn types(&self) -> LayerTypes {
        LayerTypes { launch: true, build: false, cache: true }
    }
    fn create(&mut self, _c: &libcnb::build::BuildContext<vh::layermodel::VB>, _p: &std::path::Path) -> Result<libcnb::layer::LayerResult<toml::Table>, vh::layermodel::VErr> {
        libcnb::layer::LayerResultBuilder::new(self.0.clone()).build()
    }
}

/// layer metadata written through the layer APIs themselves (not through write_toml_file on a
/// LayerContentMetadata): struct API `write_metadata`, struct API `ReplaceMetadata` on invalid
/// metadata, trait API `create`
#[allow(deprecated)]
fn layer_api_cases(out: &mut Out) {
    use libcnb::layer::{CachedLayerDefinition, InvalidMetadataAction, RestoredLayerAction};
    let vals = gen_values();
    for (tv, jv) in &vals {
        let mut table = toml::Table::new();
        table.insert("v".into(), tv.clone());
        for route in 0..3 {
            let sc = Scratch::new("c07l");
            let ctx = vh::layermodel::mk_context(&sc.path);
            let name: libcnb::data::layer::LayerName = "a".parse().unwrap();
            let (types, r): ((bool, bool, bool), Result<(), String>) = match route {
                0 => (
                    (false, true, true),
                    ctx.cached_layer(&name, CachedLayerDefinition { build: true, launch: false, invalid_metadata_action: &|_| InvalidMetadataAction::DeleteLayer::<toml::Table>, restored_layer_action: &|_: &toml::Table, _| RestoredLayerAction::KeepLayer })
                        .and_then(|lr| lr.write_metadata(table.clone()))
                        .map_err(|e| format!("{e:?}")),
                ),
                1 => {
                    // an existing layer whose metadata does not parse as MV (no `v`): replaced by the callback
                    std::fs::create_dir_all(ctx.layers_dir.join("a")).unwrap();
                    std::fs::write(ctx.layers_dir.join("a.toml"), "[metadata]\nother = 1\n").unwrap();
                    let mv = MV { v: tv.clone() };
                    (
                        (true, true, true),
                        ctx.cached_layer(&name, CachedLayerDefinition { build: true, launch: true, invalid_metadata_action: &|_| InvalidMetadataAction::ReplaceMetadata(mv.clone()), restored_layer_action: &|_: &MV, _| RestoredLayerAction::KeepLayer })
                            .map(|_| ())
                            .map_err(|e| format!("{e:?}")),
                    )
                }
                _ => ((true, false, true), ctx.handle_layer(name.clone(), CreateWith(table.clone())).map(|_| ()).map_err(|e| format!("{e:?}"))),
            };
            let text = std::fs::read_to_string(ctx.layers_dir.join("a.toml")).ok();
            let (toml, err) = match r {
                Ok(()) => (text, None),
                Err(e) => (None, Some(e)),
            };
            let t2 = types;
            let table2 = table.clone();
            out.case_text(
                "layer_metadata",
                format!("{} metadata v={jv}", ["struct API write_metadata", "struct API ReplaceMetadata", "trait API create"][route]),
                json!({"types": {"launch": types.0, "build": types.1, "cache": types.2}, "metadata": ["t", {"v": jv}]}),
                toml,
                err,
                move |s: &str| match toml::from_str::<LayerContentMetadata>(s) {
                    Err(e) => format!("error: {e}"),
                    Ok(back) => {
                        let bt = back.types.map(|x| (x.launch, x.build, x.cache));
                        if bt == Some(t2) && toml_eq(&back.metadata.map(toml::Value::Table), &Some(toml::Value::Table(table2.clone()))) { "ok".into() } else { "differs".into() }
                    }
                },
            );
        }
    }
}

/// structural equality of toml values with nan == nan
fn toml_eq(a: &Option<toml::Value>, b: &Option<toml::Value>) -> bool {
    fn eq(a: &toml::Value, b: &toml::Value) -> bool {
        use toml::Value as T;
        match (a, b) {
            (T::Float(x), T::Float(y)) => (x.is_nan() && y.is_nan()) || (x == y && x.is_sign_negative() == y.is_sign_negative()),
            (T::Array(x), T::Array(y)) => x.len() == y.len() && x.iter().zip(y).all(|(p, q)| eq(p, q)),
            (T::Table(x), T::Table(y)) => x.len() == y.len() && x.iter().all(|(k, v)| y.get(k).map(|w| eq(v, w)).unwrap_or(false)),
            (x, y) => x == y,
        }
    }
    match (a, b) {
        (None, None) => true,
        (Some(x), Some(y)) => eq(x, y),
        _ => false,
    }
}

fn package_cases(out: &mut Out) {
    // the last three are scheme-less references that carry more than a path (fragment, query, authority)
    let uris = [".", "docker://docker.io/x/y:1", "https://e.com/a%20b?q=1#f", "../rel/path", "/abs/p", "urn:cnb:registry:x/y@1", "libcnb:x/y", "../buildpacks/c#-buildpack", "example.tgz?version=1.2.3", "//fileserver.example.com/share/ruby.cnb"];
    for bp in [".", "docker://r/meta"] {
        for os in [None, Some(PlatformOs::Linux), Some(PlatformOs::Windows)] {
            for n in 0..=2usize {
                for first in 0..uris.len() {
                    let deps: Vec<&str> = (0..n).map(|i| uris[(first + i * 4) % uris.len()]).collect();
                    let pd = PackageDescriptor {
                        buildpack: PackageDescriptorBuildpackReference::try_from(bp).unwrap(),
                        dependencies: deps.iter().map(|d| PackageDescriptorDependency::try_from(*d).unwrap()).collect(),
                        platform: os.clone().map(|os| Platform { os }).unwrap_or_default(),
                    };
                    let want_os = match os { Some(PlatformOs::Windows) => "windows", _ => "linux" };
                    let deps2: Vec<String> = deps.iter().map(|s| s.to_string()).collect();
                    let bp2 = bp.to_string();
                    out.case("package_descriptor", format!("bp {bp} os {os:?} deps {deps:?}"), json!({"buildpack": bp, "dependencies": deps, "os": want_os}), &pd, move |s: &str| match toml::from_str::<PackageDescriptor>(s) {
                        Err(e) => format!("error: {e}"),
                        Ok(b) => if b.buildpack.uri.to_string() == bp2 && b.dependencies.iter().map(|d| d.uri.to_string()).eq(deps2.iter().cloned()) && ((b.platform.os == PlatformOs::Linux) == (want_os == "linux")) { "ok".into() } else { "differs".into() },
                    }, false);
                    if n == 0 {
                        break;
                    }
                }
            }
        }
    }
}

fn execd_cases(out: &mut Out) {
    let keys = ["A", "a_b", "x-1"];
    let exe = std::env::current_exe().unwrap();
    let run = |kv: Vec<(&str, &str)>, out: &mut Out| {
        let file = out.dir.path.join("fd3.toml");
        let _ = std::fs::remove_file(&file);
        let arg = serde_json::to_string(&kv).unwrap();
        let st = std::process::Command::new("sh").arg("-c").arg("exec \"$0\" c07-execd \"$1\" 3>\"$2\"").arg(&exe).arg(&arg).arg(&file).status();
        let toml = std::fs::read_to_string(&file).ok();
        let intended: serde_json::Map<String, Value> = kv.iter().map(|(k, v)| (k.to_string(), json!(v))).collect();
        out.emit(json!({"id": out.n, "kind": "execd", "trace": format!("{kv:?}"), "intended": intended, "toml": toml, "ser_error": if st.map(|s| s.success()).unwrap_or(false) { Value::Null } else { json!("helper failed") }, "readback": "n/a", "expect_error": false}));
    };
    run(vec![], out);
    for k in keys {
        for pl in PAYLOADS {
            run(vec![(k, pl)], out);
        }
    }
    for (i, pl) in PAYLOADS.iter().enumerate() {
        run(vec![(keys[i % 3], pl), (keys[(i + 1) % 3], "second")], out);
    }
}

/// helper process: writes its key/value pairs with the real libcnb function to fd 3
pub fn execd_helper(args: &Args) {
    let kv: Vec<(String, String)> = serde_json::from_str(&args.rest.first().cloned().unwrap_or("[]".into())).unwrap_or_default();
    // Args::parse puts unknown args in rest; the tier parser consumed nothing here
    let map: std::collections::HashMap<libcnb_data::exec_d::ExecDProgramOutputKey, String> = kv.into_iter().map(|(k, v)| (k.parse().unwrap(), v)).collect();
    libcnb::exec_d::write_exec_d_program_output(libcnb_data::exec_d::ExecDProgramOutput::new(map));
}

pub fn generate(args: &Args) {
    let path = args.out.clone().expect("--out");
    let f = std::io::BufWriter::new(std::fs::File::create(&path).unwrap());
    let mut out = Out { f, n: 0, dir: Scratch::new("c07") };
    let (ld, pd) = if args.thorough() { (5, 7) } else { (4, 5) };
    launch_cases(&mut out, ld);
    plan_cases(&mut out, pd);
    metadata_cases(&mut out);
    layer_api_cases(&mut out);
    package_cases(&mut out);
    execd_cases(&mut out);
    out.f.flush().unwrap();
    eprintln!("c07gen: {} cases", out.n);
    drop(out);
    vh::snapshot::cleanup_scratch_root();
}
