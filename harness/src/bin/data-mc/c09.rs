//! C09 — identifier and version grammars: all strings up to a length bound over a class-
//! representative alphabet through the run-time parser and the deserialiser, compared with
//! hand-written reference predicates; versions/API likewise plus display/parse round trips.
//! Also exports the string lists for the compile-time literal-macro path (driven by checks/c09.py).
use libcnb_data::buildpack::{BuildpackApi, BuildpackId, BuildpackVersion};
use libcnb_data::exec_d::ExecDProgramOutputKey;
use libcnb_data::launch::ProcessType;
use libcnb_data::layer::LayerName;
use rayon::prelude::*;
use serde::Deserialize;
use serde_json::json;
use std::fmt::Display;
use std::str::FromStr;
use vh::report::{Args, Reporter};

const ALPHA: [char; 12] = ['a', 'Z', '0', '.', '/', '-', '_', '+', ' ', '\n', '\0', 'é'];
/// ASCII neighbours of the letter/digit ranges ('@' 'A'..'Z' '[' ... '`' 'a'..'z' '{', '9' ':'):
/// sloppy ranges such as `A-z` or `0-:` show up only on these
const BOUNDARY: [char; 6] = ['@', '[', '^', '`', '{', ':'];
const RESERVED: [&str; 6] = ["build", "launch", "store", "app", "config", "sbom"];

fn strings_upto(alpha: &[char], n: usize) -> Vec<String> {
    let mut out = vec![String::new()];
    let mut level = vec![String::new()];
    for _ in 0..n {
        let mut next = Vec::with_capacity(level.len() * alpha.len());
        for s in &level {
            for c in alpha {
                let mut t = s.clone();
                t.push(*c);
                next.push(t);
            }
        }
        out.extend(next.iter().cloned());
        level = next;
    }
    out
}

fn reserved_variants() -> Vec<String> {
    let mut v = Vec::new();
    for w in RESERVED {
        v.push(w.to_string());
        v.push(w.to_uppercase());
        v.push(w[1..].to_string());
        v.push(w[..w.len() - 1].to_string());
        for c in ALPHA {
            v.push(format!("{w}{c}"));
            v.push(format!("{c}{w}"));
        }
        // the reserved word with the suffixes / prefixes of the files and directories the spec puts next
        // to a layer (all of them are ordinary names)
        for suffix in [".toml", ".sbom", ".sbom.cdx.json", ".d", ".tmp", ".bak", "-cache", "_"] {
            v.push(format!("{w}{suffix}"));
        }
        for prefix in ["x.", "my-", "."] {
            v.push(format!("{prefix}{w}"));
        }
    }
    v
}

/// reference predicates; None = acceptance not judged (don't-care zone)
fn ref_accept(kind: usize, s: &str) -> Option<bool> {
    if s.chars().any(|c| !c.is_ascii()) {
        return None;
    }
    let all = |f: fn(char) -> bool| !s.is_empty() && s.chars().all(f);
    match kind {
        // layer name
        0 => {
            if s.contains('/') || s.contains('\n') || s.contains('\0') {
                None
            } else {
                Some(!s.is_empty() && !["build", "launch", "store"].contains(&s))
            }
        }
        // process type
        1 => Some(all(|c| c.is_ascii_alphanumeric() || c == '.' || c == '_' || c == '-')),
        // buildpack id
        2 => Some(all(|c| c.is_ascii_alphanumeric() || c == '.' || c == '/' || c == '-') && !["app", "config", "sbom"].contains(&s)),
        // exec.d key
        _ => Some(all(|c| c.is_ascii_alphanumeric() || c == '_' || c == '-')),
    }
}

const KINDS: [&str; 4] = ["layer_name", "process_type", "buildpack_id", "exec_d_program_output_key"];

#[derive(Deserialize)]
struct W<T> {
    v: T,
}
#[derive(serde::Serialize)]
struct WS<'a> {
    v: &'a str,
}

struct Verdict {
    runtime: bool,
    deser: bool,
    render_ok: bool,
}

fn probe<T: FromStr + Display + serde::Serialize + for<'de> Deserialize<'de>>(s: &str) -> Verdict {
    let r = s.parse::<T>();
    let doc = toml::to_string(&WS { v: s }).unwrap();
    let d = toml::from_str::<W<T>>(&doc);
    let mut render_ok = true;
    if let Ok(v) = &r {
        render_ok &= v.to_string() == s;
        render_ok &= serde_json::to_value(v).ok().and_then(|j| j.as_str().map(|x| x == s)).unwrap_or(false);
    }
    if let Ok(w) = &d {
        render_ok &= w.v.to_string() == s;
    }
    Verdict { runtime: r.is_ok(), deser: d.is_ok(), render_ok }
}

fn probe_kind(kind: usize, s: &str) -> Verdict {
    match kind {
        0 => probe::<LayerName>(s),
        1 => probe::<ProcessType>(s),
        2 => probe::<BuildpackId>(s),
        _ => probe::<ExecDProgramOutputKey>(s),
    }
}

// ---------- versions ----------

fn ref_version(s: &str) -> bool {
    let parts: Vec<&str> = s.split('.').collect();
    parts.len() == 3 && parts.iter().all(|p| ref_component(p, false))
}
fn ref_api(s: &str) -> bool {
    let parts: Vec<&str> = s.split('.').collect();
    (parts.len() == 1 || parts.len() == 2) && parts.iter().all(|p| ref_component(p, true))
}
fn ref_component(p: &str, leading_zeros_ok: bool) -> bool {
    if p.is_empty() || !p.chars().all(|c| c.is_ascii_digit()) {
        return false;
    }
    if !leading_zeros_ok && p.len() > 1 && p.starts_with('0') {
        return false;
    }
    // within u64
    let t = p.trim_start_matches('0');
    t.len() < 20 || (t.len() == 20 && t <= "18446744073709551615")
}

const COMPONENTS: [&str; 14] = ["0", "1", "10", "01", "00", "+1", "-1", " 1", "1 ", "", "1_0", "١", "18446744073709551615", "18446744073709551616"];

pub fn run(args: &Args) {
    let mut rep = Reporter::new("C09", "exploration", args);
    let max_len = if args.thorough() { 6 } else { 4 };
    let macro_len = if args.thorough() { 4 } else { 3 };
    let mut strings = strings_upto(&ALPHA, max_len);
    strings.extend(reserved_variants());
    // class-boundary characters: all strings of length <= 3 over the full 18-symbol alphabet
    let wide: Vec<char> = ALPHA.iter().chain(BOUNDARY.iter()).copied().collect();
    strings.extend(strings_upto(&wide, if args.thorough() { 4 } else { 3 }));
    strings.sort();
    strings.dedup();
    let mut total = 0u64;
    let mut judged = 0u64;
    let mut accepted = 0u64;
    for kind in 0..4 {
        let res: Vec<(usize, Verdict)> = strings.par_iter().enumerate().map(|(i, s)| (i, probe_kind(kind, s))).collect();
        for (i, v) in res {
            let s = &strings[i];
            total += 1;
            let want = ref_accept(kind, s);
            if v.runtime {
                accepted += 1;
            }
            let replay = json!({"type": KINDS[kind], "string": s});
            if v.runtime != v.deser {
                rep.violation(&format!("paths-disagree:{}", KINDS[kind]), format!("{} {s:?}: run-time parse accepted={} but deserialisation accepted={}", KINDS[kind], v.runtime, v.deser), replay.clone());
            }
            if !v.render_ok {
                rep.violation(&format!("render-differs:{}", KINDS[kind]), format!("{} {s:?}: accepted value does not display/serialise as the identical string", KINDS[kind]), replay.clone());
            }
            if let Some(w) = want {
                judged += 1;
                if v.runtime != w {
                    let sig = if v.runtime { "accepts-invalid" } else { "rejects-valid" };
                    rep.violation(&format!("{sig}:{}", KINDS[kind]), format!("{} {s:?}: accepted={}, the spec grammar says {}", KINDS[kind], v.runtime, w), replay);
                }
            }
        }
    }
    // versions: all strings over a 7-symbol alphabet, plus component grids
    let valpha = ['0', '1', '9', '.', '+', '-', ' '];
    let mut vstrings = strings_upto(&valpha, if args.thorough() { 8 } else { 7 });
    for a in COMPONENTS {
        for b in COMPONENTS {
            vstrings.push(format!("{a}.{b}"));
            for c in COMPONENTS {
                vstrings.push(format!("{a}.{b}.{c}"));
            }
        }
        vstrings.push(a.to_string());
    }
    vstrings.sort();
    vstrings.dedup();
    let vres: Vec<(bool, bool, bool, bool, bool)> = vstrings
        .par_iter()
        .map(|s| {
            let v = BuildpackVersion::try_from(s.clone());
            let a = BuildpackApi::try_from(s.clone());
            let doc = toml::to_string(&WS { v: s }).unwrap();
            let vd = toml::from_str::<W<BuildpackVersion>>(&doc).is_ok();
            let ad = toml::from_str::<W<BuildpackApi>>(&doc).is_ok();
            // parse(display(parse(s))) == parse(s)
            let mut rt = true;
            if let Ok(x) = &v {
                rt &= BuildpackVersion::try_from(x.to_string()).map(|y| y == *x).unwrap_or(false);
            }
            if let Ok(x) = &a {
                rt &= BuildpackApi::try_from(x.to_string()).map(|y| y == *x).unwrap_or(false);
            }
            (v.is_ok(), vd, a.is_ok(), ad, rt)
        })
        .collect();
    for (s, (v, vd, a, ad, rt)) in vstrings.iter().zip(vres) {
        total += 2;
        judged += 2;
        if v {
            accepted += 1;
        }
        if a {
            accepted += 1;
        }
        if v != ref_version(s) {
            rep.violation(if v { "accepts-invalid:buildpack_version" } else { "rejects-valid:buildpack_version" }, format!("BuildpackVersion {s:?}: accepted={v}, grammar X.Y.Z of plain non-negative integers says {}", ref_version(s)), json!({"type": "buildpack_version", "string": s}));
        }
        if a != ref_api(s) {
            rep.violation(if a { "accepts-invalid:buildpack_api" } else { "rejects-valid:buildpack_api" }, format!("BuildpackApi {s:?}: accepted={a}, grammar N or N.M of plain digits says {}", ref_api(s)), json!({"type": "buildpack_api", "string": s}));
        }
        if v != vd || a != ad {
            rep.violation("paths-disagree:version", format!("{s:?}: try_from and deserialisation disagree (version {v}/{vd}, api {a}/{ad})"), json!({"type": "version", "string": s}));
        }
        if !rt {
            rep.violation("display-parse-not-inverse", format!("{s:?}: parse(display(parse(s))) != parse(s)"), json!({"type": "version", "string": s}));
        }
    }
    // parse(display(v)) == v on a boundary grid of u64 values
    let grid = [0u64, 1, 9, 10, 255, u32::MAX as u64, u64::MAX - 1, u64::MAX];
    let mut grid_n = 0u64;
    for a in grid {
        for b in grid {
            let api = BuildpackApi { major: a, minor: b };
            grid_n += 1;
            if BuildpackApi::try_from(api.to_string()).ok() != Some(BuildpackApi { major: a, minor: b }) {
                rep.violation("display-parse-not-inverse", format!("BuildpackApi {a}.{b}: parse(display(v)) != v"), json!({"type": "buildpack_api", "value": [a, b]}));
            }
            for c in grid {
                grid_n += 1;
                let v = BuildpackVersion::new(a, b, c);
                if BuildpackVersion::try_from(v.to_string()).ok() != Some(BuildpackVersion::new(a, b, c)) {
                    rep.violation("display-parse-not-inverse", format!("BuildpackVersion {a}.{b}.{c}: parse(display(v)) != v"), json!({"type": "buildpack_version", "value": [a, b, c]}));
                }
            }
        }
    }
    // export for the compile-time macro path
    if let Some(p) = args.rest.first() {
        let mut short = strings_upto(&ALPHA, macro_len);
        short.extend(reserved_variants());
        short.extend(strings_upto(&wide, 2));
        short.sort();
        short.dedup();
        let mut exp = serde_json::Map::new();
        for kind in 0..4 {
            let list: Vec<serde_json::Value> = short.iter().map(|s| json!([s, ref_accept(kind, s), probe_kind(kind, s).runtime])).collect();
            exp.insert(KINDS[kind].into(), json!(list));
        }
        std::fs::write(p, serde_json::to_string(&exp).unwrap()).unwrap();
    }
    rep.cov("evaluations", total + grid_n);
    rep.cov("strings_per_identifier_type", strings.len() as u64);
    rep.cov("version_strings", vstrings.len() as u64);
    rep.cov("judged_by_reference", judged);
    rep.cov("accepted", accepted);
    rep.cov("distinct_nontrivial", accepted);
    rep.cov("roundtrip_grid", grid_n);
    rep.cov("rule", "identifiers: every string of length <= L over {a Z 0 . / - _ + space newline NUL é} (and length <= 3/4 over that alphabet extended with the ASCII class-boundary characters @ [ ^ ` { :) plus the six reserved words with one character appended/prepended/removed and upper-cased, for layer names, process types, buildpack ids and exec.d keys, through str::parse and through TOML deserialisation, against hand-written predicates; versions/API: every string of length <= 7 (8) over {0 1 9 . + - space} plus all pairs/triples over 14 components (leading zeros, signs, spaces, empty, underscore, Arabic-Indic digit, u64::MAX, u64::MAX+1); display/parse round trips on an 8^3 boundary grid. distinct_nontrivial = accepted strings (each judged on rendering as the identical string)");
    rep.cov("bound", json!({"identifier_length": max_len, "version_length": if args.thorough() {8} else {7}}));
    rep.cov("exhaustive", true);
    rep.sample(json!({"type": "buildpack_id", "string": "sbom/", "reference": true}));
    rep.sample(json!({"type": "buildpack_version", "string": "+1.2.3", "reference": false}));
    rep.sample(json!({"type": "layer_name", "string": "build\n", "reference": "not judged (newline)"}));
    rep.assume("non-ASCII letters, and '/', newline, NUL in layer names, are a don't-care zone for acceptance (agreement of the acceptance paths is still required)");
    rep.finish();
}
