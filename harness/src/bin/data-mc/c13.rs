//! C13 — packaging order is a dependency order.
//! Every labelled DAG on <= n nodes is written as a directory of buildpacks, loaded through the
//! real `build_libcnb_buildpacks_dependency_graph`, and every ordered non-empty root selection is
//! run through the real `get_dependencies`.
use libcnb_package::buildpack_dependency_graph::build_libcnb_buildpacks_dependency_graph;
use libcnb_package::dependency_graph::get_dependencies;
use rayon::prelude::*;
use serde_json::json;
use std::collections::BTreeSet;
use std::path::Path;
use vh::report::{Args, Reporter};
use vh::snapshot::Scratch;

/// adjacency as bitmask per node: deps[i] bit j set => i depends on j
type Dag = Vec<u8>;

fn all_dags(n: usize) -> Vec<Dag> {
    let pairs: Vec<(usize, usize)> = (0..n).flat_map(|i| (0..n).filter(move |j| *j != i).map(move |j| (i, j))).collect();
    let mut out = Vec::new();
    for mask in 0u32..(1u32 << pairs.len()) {
        let mut deps = vec![0u8; n];
        for (b, (i, j)) in pairs.iter().enumerate() {
            if mask & (1 << b) != 0 {
                deps[*i] |= 1 << j;
            }
        }
        if acyclic(&deps) {
            out.push(deps);
        }
    }
    out
}

fn acyclic(deps: &[u8]) -> bool {
    // Kahn: repeatedly remove nodes without remaining deps
    let n = deps.len();
    let mut removed = 0u8;
    loop {
        let mut progress = false;
        for i in 0..n {
            if removed & (1 << i) == 0 && deps[i] & !removed == 0 {
                removed |= 1 << i;
                progress = true;
            }
        }
        if removed.count_ones() as usize == n {
            return true;
        }
        if !progress {
            return false;
        }
    }
}

fn closure(deps: &[u8], roots: &[usize]) -> u8 {
    let mut set = 0u8;
    let mut stack: Vec<usize> = roots.to_vec();
    while let Some(i) = stack.pop() {
        if set & (1 << i) != 0 {
            continue;
        }
        set |= 1 << i;
        for j in 0..deps.len() {
            if deps[i] & (1 << j) != 0 {
                stack.push(j);
            }
        }
    }
    set
}

fn permutations(items: &[usize]) -> Vec<Vec<usize>> {
    if items.len() <= 1 {
        return vec![items.to_vec()];
    }
    let mut out = Vec::new();
    for i in 0..items.len() {
        let mut rest = items.to_vec();
        let x = rest.remove(i);
        for mut p in permutations(&rest) {
            p.insert(0, x);
            out.push(p);
        }
    }
    out
}

fn id(i: usize) -> String {
    // node 1 has an id without a namespace, node 2 the same name inside a namespace (and sorting
    // before it): a reference names exactly one of them
    match i {
        1 => "zz1".to_string(),
        2 => "acme/zz1".to_string(),
        _ => format!("verif/n{i}"),
    }
}

fn package_toml_text(i: usize, deps: &[usize], dangling: Option<usize>) -> String {
    let mut p = String::from("[buildpack]\nuri = \".\"\n");
    // non-libcnb dependencies first and between the libcnb ones: they never become edges
    // and must not hide the libcnb: entries that follow them
    p.push_str("\n[[dependencies]]\nuri = \"docker://docker.io/first/dep\"\n");
    for (k, j) in deps.iter().enumerate() {
        if k == 1 {
            p.push_str("\n[[dependencies]]\nuri = \"../some/relative/path\"\n");
        }
        p.push_str(&format!("\n[[dependencies]]\nuri = \"libcnb:{}\"\n", id(*j)));
        if k == 0 && i % 2 == 0 {
            // the first dependency listed twice (even nodes): a repeated entry neither hides the
            // entries after it nor counts twice
            p.push_str(&format!("\n[[dependencies]]\nuri = \"libcnb:{}\"\n", id(*j)));
        }
    }
    if dangling == Some(i) {
        // unknown in three ways: a well-formed id nobody has, a string that is not a valid
        // buildpack id, a reserved id
        let missing = ["verif/missing", "demo/my_buildpack", "app"][i % 3];
        p.push_str(&format!("\n[[dependencies]]\nuri = \"libcnb:{missing}\"\n"));
    }
    // non-libcnb dependencies never become edges
    p.push_str("\n[[dependencies]]\nuri = \"docker://docker.io/x/y\"\n");
    p
}

fn node_dir(root: &Path, i: usize) -> std::path::PathBuf {
    // node 0 and node 3 live below top-level directories that merely start with `target`
    let top = match i {
        0 => "targets".to_string(),
        3 => "target-jvm".to_string(),
        _ => format!("dir{}", (i * 7) % 10),
    };
    root.join(top).join(format!("bp{i}"))
}

/// Rescans of ONE directory in ONE process: workspace A is written and scanned, then only the
/// package.toml files are rewritten to say B (buildpack.toml files stay untouched, byte for byte
/// and in their timestamps) and the directory is scanned again, then back to A. Every scan must
/// describe what is on disk at that time: the edge set is compared with the lists just written
/// (and a dangling reference introduced by the rewrite must be an error).
fn check_rescan(a: &[Vec<usize>], b: &[Vec<usize>]) -> Vec<Viol> {
    let n = a.len();
    let sc = Scratch::new("c13r");
    let ws_root = sc.path.join("ws");
    std::fs::create_dir_all(&ws_root).unwrap();
    write_workspace(&ws_root, a, None);
    let mut viols = Vec::new();
    let replay = json!({"rescan": [a, b]});
    let rewrite = |lists: &[Vec<usize>], dangling: Option<usize>| {
        for i in 0..n {
            let p = node_dir(&ws_root, i).join("package.toml");
            if !lists[i].is_empty() || dangling == Some(i) || p.exists() {
                std::fs::write(&p, package_toml_text(i, &lists[i], dangling)).unwrap();
            }
        }
    };
    let edges_of = |lists: &[Vec<usize>]| -> BTreeSet<(String, String)> { lists.iter().enumerate().flat_map(|(i, l)| l.iter().map(move |j| (id(i), id(*j)))).collect() };
    let mut step = 0;
    for lists in [a, b, a] {
        if step > 0 {
            rewrite(lists, None);
        }
        step += 1;
        match build_libcnb_buildpacks_dependency_graph(&ws_root) {
            Err(e) => viols.push(("rescan:graph-construction-failed".into(), format!("scan {step} of one directory ({a:?} -> {b:?} -> back): {e}"), replay.clone())),
            Ok(g) => {
                let got: BTreeSet<(String, String)> = g.edge_indices().map(|e| g.edge_endpoints(e).unwrap()).map(|(x, y)| (g[x].buildpack_id.to_string(), g[y].buildpack_id.to_string())).collect();
                let want = edges_of(lists);
                if got != want || g.node_count() != n {
                    viols.push(("rescan:stale-or-wrong-edges".into(), format!("scan {step} of one directory ({a:?} -> {b:?} -> back): the files say {want:?}, the graph has {got:?} ({} nodes)", g.node_count()), replay.clone()));
                }
            }
        }
    }
    // a rewrite that introduces a dangling reference at each node in turn
    for at in 0..n {
        rewrite(a, Some(at));
        if let Ok(g) = build_libcnb_buildpacks_dependency_graph(&ws_root) {
            viols.push(("rescan:dangling-dependency-accepted".into(), format!("rescan of one directory after node {at} of {a:?} gained a libcnb: dependency on an unknown id: graph with {} nodes / {} edges", g.node_count(), g.edge_count()), replay.clone()));
        }
        rewrite(a, None);
    }
    viols
}

/// `dep_lists[i]` = ordered dependency list of node i; `dangling` = (node, id) extra dependency
fn write_workspace(root: &Path, dep_lists: &[Vec<usize>], dangling: Option<usize>) {
    for (i, deps) in dep_lists.iter().enumerate() {
        let d = node_dir(root, i);
        if i % 4 == 1 {
            // node 1 lives outside the workspace directory and is linked into it
            let real = root.parent().unwrap().join("ext").join(format!("bp{i}"));
            std::fs::create_dir_all(&real).unwrap();
            std::fs::create_dir_all(d.parent().unwrap()).unwrap();
            std::os::unix::fs::symlink(&real, &d).unwrap();
        } else {
            std::fs::create_dir_all(&d).unwrap();
        }
        let has_deps = !deps.is_empty() || dangling == Some(i);
        // node 2 (when it has dependencies) is a libcnb.rs buildpack (component descriptor + Cargo.toml)
        // that carries its own package.toml with libcnb: dependencies; all other nodes with
        // dependencies are composites
        let libcnb_with_package_toml = has_deps && i % 3 == 2;
        let composite = !libcnb_with_package_toml && (has_deps || i % 2 == 1);
        if libcnb_with_package_toml {
            std::fs::write(d.join("buildpack.toml"), format!("api = \"0.10\"\n\n[buildpack]\nid = \"{}\"\nversion = \"0.0.1\"\n\n[[targets]]\nos = \"linux\"\n", id(i))).unwrap();
            std::fs::write(d.join("Cargo.toml"), "[package]\nname = \"x\"\nversion = \"0.0.0\"\n").unwrap();
        }
        if composite || libcnb_with_package_toml {
            if composite {
            let mut t = format!("api = \"0.10\"\n\n[buildpack]\nid = \"{}\"\nversion = \"0.0.1\"\n\n[[order]]\n", id(i));
            let group: Vec<String> = if deps.is_empty() { vec!["ext/z".into()] } else { deps.iter().map(|j| id(*j)).collect() };
            for g in group {
                t.push_str(&format!("\n[[order.group]]\nid = \"{g}\"\nversion = \"0.0.1\"\n"));
            }
            std::fs::write(d.join("buildpack.toml"), t).unwrap();
            }
            let p = package_toml_text(i, deps, dangling);
            std::fs::write(d.join("package.toml"), p).unwrap();
        } else {
            std::fs::write(d.join("buildpack.toml"), format!("api = \"0.10\"\n\n[buildpack]\nid = \"{}\"\nversion = \"0.0.1\"\n\n[[targets]]\nos = \"linux\"\n", id(i))).unwrap();
            std::fs::write(d.join("Cargo.toml"), "[package]\nname = \"x\"\nversion = \"0.0.0\"\n").unwrap();
        }
    }
    // a non-libcnb buildpack directory (component without Cargo.toml) must be ignored
    let other = root.join("other");
    std::fs::create_dir_all(&other).unwrap();
    std::fs::write(other.join("buildpack.toml"), "api = \"0.10\"\n\n[buildpack]\nid = \"verif/other\"\nversion = \"0.0.1\"\n\n[[targets]]\nos = \"linux\"\n").unwrap();
}

fn root_selections(n: usize) -> Vec<Vec<usize>> {
    let mut out = Vec::new();
    for mask in 1u32..(1 << n) {
        let items: Vec<usize> = (0..n).filter(|i| mask & (1 << i) != 0).collect();
        out.extend(permutations(&items));
    }
    out
}

type Viol = (String, String, serde_json::Value);

fn check_dag(deps: &Dag, dep_lists: &[Vec<usize>]) -> (u64, Vec<Viol>, BTreeSet<String>) {
    let n = deps.len();
    let sc = Scratch::new("c13");
    let ws_root = sc.path.join("ws");
    std::fs::create_dir_all(&ws_root).unwrap();
    write_workspace(&ws_root, dep_lists, None);
    let mut viols = Vec::new();
    let mut shapes = BTreeSet::new();
    let replay = |roots: &[usize]| json!({"dep_lists": dep_lists, "roots": roots});
    let graph = match build_libcnb_buildpacks_dependency_graph(&ws_root) {
        Ok(g) => g,
        Err(e) => {
            viols.push(("graph-construction-failed".into(), format!("valid workspace {dep_lists:?} rejected: {e}"), replay(&[])));
            return (0, viols, shapes);
        }
    };
    if graph.node_count() != n {
        viols.push(("wrong-node-set".into(), format!("workspace {dep_lists:?}: graph has {} nodes, expected {n}", graph.node_count()), replay(&[])));
        return (0, viols, shapes);
    }
    let node_of = |i: usize| graph.node_weights().find(|w| w.buildpack_id.as_str() == id(i)).unwrap();
    let mut evals = 0;
    for roots in root_selections(n) {
        evals += 1;
        let root_nodes: Vec<_> = roots.iter().map(|i| node_of(*i)).collect();
        let out = match get_dependencies(&graph, &root_nodes) {
            Ok(o) => o,
            Err(e) => {
                viols.push(("get-dependencies-failed".into(), format!("{dep_lists:?} roots {roots:?}: {e}"), replay(&roots)));
                continue;
            }
        };
        let order: Vec<usize> = out.iter().map(|w| (0..n).find(|i| id(*i) == w.buildpack_id.as_str()).expect("an id of this workspace")).collect();
        shapes.insert(format!("{}:{}", n, order.len()));
        let want = closure(deps, &roots);
        let got: u8 = order.iter().fold(0, |a, i| a | (1 << i));
        let mut sig = None;
        if order.len() != got.count_ones() as usize {
            sig = Some("duplicate-in-order");
        } else if got & !want != 0 {
            sig = Some("extra-buildpack-in-order");
        } else if want & !got != 0 {
            sig = Some("dependency-missing-from-order");
        } else {
            'o: for (pu, u) in order.iter().enumerate() {
                for (pv, v) in order.iter().enumerate() {
                    if deps[*u] & (1 << v) != 0 && pv > pu {
                        sig = Some("dependency-after-dependent");
                        break 'o;
                    }
                }
            }
        }
        if let Some(s) = sig {
            viols.push((s.into(), format!("dependency lists {dep_lists:?}, roots {roots:?}: order {order:?}"), replay(&roots)));
        }
    }
    (evals, viols, shapes)
}

fn check_dangling(dep_lists: &[Vec<usize>], at: usize) -> Option<Viol> {
    let sc = Scratch::new("c13d");
    let ws_root = sc.path.join("ws");
    std::fs::create_dir_all(&ws_root).unwrap();
    write_workspace(&ws_root, dep_lists, Some(at));
    match build_libcnb_buildpacks_dependency_graph(&ws_root) {
        Err(_) => None,
        Ok(g) => Some(("dangling-dependency-accepted".into(), format!("workspace {dep_lists:?} with a libcnb: dependency on an unknown id at node {at} produced a graph with {} nodes / {} edges", g.node_count(), g.edge_count()), json!({"dep_lists": dep_lists, "dangling": at}))),
    }
}

/// a package.toml that exists but cannot be read as text (ISO-8859-1 comment): an error, not "no dependencies"
fn check_unreadable(dep_lists: &[Vec<usize>], at: usize) -> Option<Viol> {
    let sc = Scratch::new("c13u");
    let ws_root = sc.path.join("ws");
    std::fs::create_dir_all(&ws_root).unwrap();
    write_workspace(&ws_root, dep_lists, None);
    let d = node_dir(&ws_root, at);
    let p = d.join("package.toml");
    let mut bytes = b"# caf\xe9\n".to_vec();
    bytes.extend(std::fs::read(&p).unwrap_or_else(|_| b"[buildpack]\nuri = \".\"\n".to_vec()));
    std::fs::write(&p, bytes).unwrap();
    match build_libcnb_buildpacks_dependency_graph(&ws_root) {
        Err(_) => None,
        Ok(g) => Some(("unreadable-package-toml-accepted".into(), format!("workspace {dep_lists:?} whose node {at} has a package.toml that is not valid UTF-8 produced a graph with {} nodes / {} edges", g.node_count(), g.edge_count()), json!({"dep_lists": dep_lists, "unreadable": at}))),
    }
}

fn lists_for(deps: &Dag, all_perms: bool) -> Vec<Vec<Vec<usize>>> {
    let n = deps.len();
    let per_node: Vec<Vec<Vec<usize>>> = (0..n)
        .map(|i| {
            let items: Vec<usize> = (0..n).filter(|j| deps[i] & (1 << j) != 0).collect();
            if all_perms {
                permutations(&items)
            } else {
                let mut rev = items.clone();
                rev.reverse();
                if rev == items { vec![items] } else { vec![items, rev] }
            }
        })
        .collect();
    if all_perms {
        // full product over nodes
        let mut out: Vec<Vec<Vec<usize>>> = vec![vec![]];
        for opts in &per_node {
            let mut next = Vec::new();
            for base in &out {
                for o in opts {
                    let mut b = base.clone();
                    b.push(o.clone());
                    next.push(b);
                }
            }
            out = next;
        }
        out
    } else {
        // all ascending, all descending
        vec![per_node.iter().map(|o| o[0].clone()).collect(), per_node.iter().map(|o| o[o.len() - 1].clone()).collect()]
    }
}

pub fn run(args: &Args) {
    let mut rep = Reporter::new("C13", "exploration", args);
    if let Some(path) = &args.replay {
        let doc: serde_json::Value = serde_json::from_str(&std::fs::read_to_string(path).expect("replay file")).expect("json");
        let dep_lists: Vec<Vec<usize>> = serde_json::from_value(doc["replay"]["dep_lists"].clone()).unwrap();
        let deps: Dag = dep_lists.iter().map(|l| l.iter().fold(0u8, |a, j| a | (1 << j))).collect();
        if let Some(pair) = doc["replay"]["rescan"].as_array() {
            let a: Vec<Vec<usize>> = serde_json::from_value(pair[0].clone()).unwrap();
            let b: Vec<Vec<usize>> = serde_json::from_value(pair[1].clone()).unwrap();
            for (sig, what, r) in check_rescan(&a, &b) {
                println!("DIFFERENCE: {what}");
                rep.violation(&sig, what, r);
            }
            rep.finish();
        }
        let v = if let Some(at) = doc["replay"]["dangling"].as_u64() { check_dangling(&dep_lists, at as usize).into_iter().collect() } else { check_dag(&deps, &dep_lists).1 };
        for (sig, what, r) in v {
            println!("DIFFERENCE: {what}");
            rep.violation(&sig, what, r);
        }
        rep.finish();
    }
    let max_n = if args.thorough() { 5 } else { 4 };
    let mut jobs: Vec<(Dag, Vec<Vec<usize>>)> = Vec::new();
    let mut n_dags = 0u64;
    for n in 1..=max_n {
        for d in all_dags(n) {
            n_dags += 1;
            for l in lists_for(&d, n <= 4) {
                jobs.push((d.clone(), l));
            }
        }
    }
    jobs.dedup();
    let results: Vec<_> = jobs.par_iter().map(|(d, l)| check_dag(d, l)).collect();
    let mut evals = 0u64;
    let mut shapes = BTreeSet::new();
    for (e, v, s) in results {
        evals += e;
        shapes.extend(s);
        for (sig, what, r) in v {
            rep.violation(&sig, what, r);
        }
    }
    // dangling dependencies: every DAG on <= 4 nodes x every node
    let mut dj = Vec::new();
    for n in 1..=4 {
        for d in all_dags(n) {
            let l = lists_for(&d, false).remove(0);
            for at in 0..n {
                dj.push((l.clone(), at));
            }
        }
    }
    let dres: Vec<_> = dj.par_iter().map(|(l, at)| check_dangling(l, *at)).collect();
    for v in dres.into_iter().flatten() {
        rep.violation(&v.0, v.1, v.2);
    }
    let ures: Vec<_> = dj.par_iter().filter(|(l, _)| l.len() <= 3).map(|(l, at)| check_unreadable(l, *at)).collect();
    for v in ures.into_iter().flatten() {
        rep.violation(&v.0, v.1, v.2);
    }
    // rescans of one directory in one process: every ordered pair of DAGs on the same <= 3 nodes
    let mut rj = Vec::new();
    for n in 1..=3 {
        let ds = all_dags(n);
        for x in &ds {
            for y in &ds {
                rj.push((lists_for(x, false).remove(0), lists_for(y, false).remove(0)));
            }
        }
    }
    let rres: Vec<_> = rj.par_iter().map(|(a, b)| check_rescan(a, b)).collect();
    for v in rres.into_iter().flatten() {
        rep.violation(&v.0, v.1, v.2);
    }
    rep.cov("rescan_pairs", rj.len() as u64);
    let nontrivial = jobs.iter().filter(|(d, _)| d.iter().any(|x| *x != 0)).count() as u64;
    rep.cov("evaluations", evals + dj.len() as u64 + 3 * rj.len() as u64);
    rep.cov("dags", n_dags);
    rep.cov("workspaces_written", (jobs.len() + dj.len()) as u64);
    rep.cov("orderings_checked", evals);
    rep.cov("dangling_cases", dj.len() as u64);
    rep.cov("distinct_nontrivial", nontrivial);
    rep.cov("distinct_outcomes", json!(shapes));
    rep.cov("rule", "every labelled DAG on <= n nodes (n<=4: every permutation of every dependency list; n=5: ascending and descending), written as composite / libcnb.rs buildpack directories and loaded by the real build_libcnb_buildpacks_dependency_graph; every ordered non-empty root selection through the real get_dependencies; plus every DAG on <= 4 nodes with one dangling libcnb: dependency at each node (a well-formed unknown id, an invalid id, or a reserved id, by node index), and every DAG on <= 3 nodes with one package.toml that is not valid UTF-8 (an error, not a leaf); even nodes list their first dependency twice; node 1's id is a bare name and node 2's id is that name inside a namespace; node 1 is always a symlink to a directory outside the workspace root, nodes 0 and 3 live below top-level directories named `targets` and `target-jvm`; rescans: for every ordered pair (A, B) of DAGs on the same <= 3 nodes one directory is scanned as A, its package.toml files rewritten to B (buildpack.toml untouched) and scanned again in the same process, then back to A, then with a dangling reference added at each node: every scan must give exactly the edges on disk. non-trivial = workspaces with at least one edge");
    rep.cov("bound", json!({"max_nodes": max_n}));
    rep.cov("exhaustive", true);
    rep.sample(json!({"dep_lists": jobs[jobs.len() / 2].1, "roots": "every ordered non-empty selection"}));
    rep.sample(json!({"dep_lists": jobs[jobs.len() - 1].1}));
    rep.sample(json!({"dangling": {"dep_lists": dj[dj.len() / 2].0, "at": dj[dj.len() / 2].1}}));
    rep.finish();
}
