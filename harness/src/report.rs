//! Output protocol between the Rust explorers and the Python dispatcher (`bin/check`).
//! An explorer writes ONE json file (`--out`): coverage numbers measured in this run and the list
//! of violations, each with a stable `signature` (used for known-finding matching), a human
//! readable description and a self-contained replay document.
use serde::Serialize;
use serde_json::{Value, json};
use std::collections::BTreeMap;
use std::time::Instant;

#[derive(Serialize, Clone, Debug)]
pub struct Violation {
    pub signature: String,
    pub what: String,
    pub replay: Value,
}

#[derive(Serialize)]
pub struct CheckOutput {
    pub property_id: String,
    pub tier: String,
    pub level: String,
    pub coverage: BTreeMap<String, Value>,
    pub assumptions: Vec<String>,
    pub violations: Vec<Violation>,
    pub machinery_error: Option<String>,
    pub wall_s: f64,
}

pub struct Args {
    pub sub: String,
    pub tier: String,
    pub out: Option<String>,
    pub replay: Option<String>,
    pub rest: Vec<String>,
}

impl Args {
    pub fn parse() -> Args {
        let mut it = std::env::args().skip(1);
        let sub = it.next().unwrap_or_default();
        let mut a = Args {
            sub,
            tier: "quick".into(),
            out: None,
            replay: None,
            rest: vec![],
        };
        while let Some(x) = it.next() {
            match x.as_str() {
                "--tier" => a.tier = it.next().expect("--tier value"),
                "--out" => a.out = it.next(),
                "--replay" => a.replay = it.next(),
                _ => a.rest.push(x),
            }
        }
        a
    }
    pub fn thorough(&self) -> bool {
        self.tier == "thorough"
    }
}

pub struct Reporter {
    pub out: CheckOutput,
    start: Instant,
    out_path: Option<String>,
    sig_seen: std::collections::BTreeSet<String>,
}

impl Reporter {
    pub fn new(property_id: &str, level: &str, args: &Args) -> Reporter {
        Reporter {
            out: CheckOutput {
                property_id: property_id.into(),
                tier: args.tier.clone(),
                level: level.into(),
                coverage: BTreeMap::new(),
                assumptions: vec![],
                violations: vec![],
                machinery_error: None,
                wall_s: 0.0,
            },
            start: Instant::now(),
            out_path: args.out.clone(),
            sig_seen: Default::default(),
        }
    }
    pub fn cov(&mut self, k: &str, v: impl Into<Value>) {
        self.out.coverage.insert(k.into(), v.into());
    }
    pub fn cov_add(&mut self, k: &str, n: u64) {
        let cur = self.out.coverage.get(k).and_then(|v| v.as_u64()).unwrap_or(0);
        self.out.coverage.insert(k.into(), json!(cur + n));
    }
    pub fn sample(&mut self, v: Value) {
        let e = self
            .out
            .coverage
            .entry("samples".into())
            .or_insert_with(|| json!([]));
        if let Some(a) = e.as_array_mut() {
            if a.len() < 8 {
                a.push(v);
            }
        }
    }
    pub fn assume(&mut self, s: &str) {
        self.out.assumptions.push(s.into());
    }
    /// at most 3 violations per signature are kept (the first = shortest under BFS order)
    pub fn violation(&mut self, signature: &str, what: String, replay: Value) {
        let n = self
            .out
            .violations
            .iter()
            .filter(|v| v.signature == signature)
            .count();
        self.sig_seen.insert(signature.to_string());
        if n < 3 && self.out.violations.len() < 60 {
            // long payloads (values of 2^17 bytes) would drown the report: keep head and tail
            let what = if what.len() > 6000 {
                let head: String = what.chars().take(3000).collect();
                let tail: String = what.chars().rev().take(1500).collect::<Vec<_>>().into_iter().rev().collect();
                format!("{head} …[{} characters omitted]… {tail}", what.chars().count() - 4500)
            } else {
                what
            };
            self.out.violations.push(Violation {
                signature: signature.into(),
                what,
                replay,
            });
        }
    }
    pub fn n_violations(&self) -> usize {
        self.out.violations.len()
    }
    pub fn machinery(&mut self, s: String) {
        self.out.machinery_error = Some(s);
    }
    pub fn finish(mut self) -> ! {
        self.out.wall_s = self.start.elapsed().as_secs_f64();
        let sigs: Vec<_> = self.sig_seen.iter().cloned().collect();
        self.out.coverage.insert("violation_signatures".into(), json!(sigs));
        let s = serde_json::to_string_pretty(&self.out).unwrap();
        match &self.out_path {
            Some(p) => std::fs::write(p, s).expect("write --out"),
            None => println!("{s}"),
        }
        crate::snapshot::cleanup_scratch_root();
        let code = if self.out.machinery_error.is_some() {
            2
        } else if self.out.violations.is_empty() {
            0
        } else {
            1
        };
        std::process::exit(code)
    }
}
