//! Abstraction of a `<layers>` directory snapshot into per-layer reference-model values, the
//! simulated lifecycle restore, and helpers to run real libcnb layer code on a scratch directory.
use crate::envref::{AbsEnv, Beh, Sc};
use crate::snapshot::{Node, Snapshot, lossy};
use libcnb::build::BuildContext;
use libcnb::data::buildpack::{BuildpackVersion, ComponentBuildpackDescriptor, BuildpackApi, BuildpackTarget as BpTarget};
use libcnb::data::buildpack_id;
use libcnb::data::buildpack_plan::BuildpackPlan;
use libcnb::detect::{DetectContext, DetectResult};
use libcnb::generic::{GenericMetadata, GenericPlatform};
use libcnb::{Buildpack, Env, Target};
use std::collections::{BTreeMap, HashSet};
use std::path::Path;

#[derive(Debug, Clone, PartialEq)]
pub struct VErr(pub String);

pub struct VB;
impl Buildpack for VB {
    type Platform = GenericPlatform;
    type Metadata = GenericMetadata;
    type Error = VErr;
    fn detect(&self, c: DetectContext<Self>) -> libcnb::Result<DetectResult, VErr> {
        crate::vbscript::detect(c)
    }
    fn build(&self, c: BuildContext<Self>) -> libcnb::Result<libcnb::build::BuildResult, VErr> {
        crate::vbscript::build(c)
    }
    fn on_error(&self, error: libcnb::Error<VErr>) {
        crate::vbscript::on_error(error)
    }
}

pub fn mk_context(root: &Path) -> BuildContext<VB> {
    for d in ["layers", "app", "buildpack"] {
        std::fs::create_dir_all(root.join(d)).unwrap();
    }
    mk_context_existing(root)
}

/// like `mk_context` but performs no file-system operation at all
pub fn mk_context_existing(root: &Path) -> BuildContext<VB> {
    let layers_dir = root.join("layers");
    let app_dir = root.join("app");
    let buildpack_dir = root.join("buildpack");
    BuildContext {
        layers_dir,
        app_dir,
        buildpack_dir,
        target: Target {
            os: "linux".into(),
            arch: "amd64".into(),
            arch_variant: None,
            distro_name: "ubuntu".into(),
            distro_version: "22.04".into(),
        },
        platform: GenericPlatform::new(Env::new()),
        buildpack_plan: BuildpackPlan { entries: Vec::new() },
        buildpack_descriptor: ComponentBuildpackDescriptor {
            api: BuildpackApi { major: 0, minor: 10 },
            buildpack: libcnb::data::buildpack::Buildpack {
                id: buildpack_id!("verif/vb"),
                name: None,
                version: BuildpackVersion::new(1, 0, 0),
                homepage: None,
                clear_env: false,
                description: None,
                keywords: Vec::new(),
                licenses: Vec::new(),
                sbom_formats: HashSet::new(),
            },
            stacks: Vec::new(),
            targets: vec![BpTarget { os: Some("linux".into()), arch: Some("amd64".into()), variant: None, distros: Vec::new() }],
            metadata: GenericMetadata::default(),
        },
        store: None,
    }
}

#[derive(Debug, Clone, PartialEq, Default)]
pub struct TomlAbs {
    /// (launch, build, cache)
    pub types: Option<(bool, bool, bool)>,
    pub metadata: Option<toml::Value>,
    /// keys other than types/metadata (must not exist)
    pub extra_keys: Vec<String>,
}

#[derive(Debug, Clone, PartialEq, Default)]
pub struct LayerAbs {
    pub dir: bool,
    /// None: no `<name>.toml`; Some(Err): present but not TOML
    pub toml: Option<Result<TomlAbs, String>>,
    /// files below env/, env.build/, env.launch/ : relative path -> bytes
    pub env_files: BTreeMap<Vec<u8>, Vec<u8>>,
    /// exec.d/<name> -> (executable?, bytes)
    pub execd: BTreeMap<Vec<u8>, (bool, Vec<u8>)>,
    /// sbom extension (cdx.json, spdx.json, syft.json) -> bytes
    pub sboms: BTreeMap<String, Vec<u8>>,
    /// everything else below the layer directory
    pub files: Snapshot,
}

impl LayerAbs {
    pub fn exists(&self) -> bool {
        self.dir
    }
    pub fn types(&self) -> Option<(bool, bool, bool)> {
        self.toml.as_ref().and_then(|t| t.as_ref().ok()).and_then(|t| t.types)
    }
    pub fn metadata(&self) -> Option<toml::Value> {
        self.toml.as_ref().and_then(|t| t.as_ref().ok()).and_then(|t| t.metadata.clone())
    }
    pub fn describe(&self) -> String {
        format!(
            "dir={} toml={} env={:?} execd={:?} sboms={:?} files={:?}",
            self.dir,
            match &self.toml {
                None => "none".to_string(),
                Some(Err(e)) => format!("unparsable({e})"),
                Some(Ok(t)) => format!("types={:?} metadata={}", t.types, t.metadata.as_ref().map(|m| m.to_string().replace('\n', " ")).unwrap_or("none".into())),
            },
            self.env_files.iter().map(|(k, v)| format!("{}={:?}", lossy(k), lossy(v))).collect::<Vec<_>>(),
            self.execd.keys().map(|k| lossy(k)).collect::<Vec<_>>(),
            self.sboms.keys().collect::<Vec<_>>(),
            self.files.0.keys().map(|k| lossy(k)).collect::<Vec<_>>(),
        )
    }
}

pub fn parse_layer_toml(data: &[u8]) -> Result<TomlAbs, String> {
    let s = std::str::from_utf8(data).map_err(|e| e.to_string())?;
    let t: toml::Table = toml::from_str(s).map_err(|e| e.to_string())?;
    let mut abs = TomlAbs::default();
    for (k, v) in &t {
        match k.as_str() {
            "types" => {
                let tt = v.as_table().ok_or("types is not a table")?;
                let g = |k: &str| tt.get(k).and_then(|b| b.as_bool()).unwrap_or(false);
                for k in tt.keys() {
                    if !["launch", "build", "cache"].contains(&k.as_str()) {
                        abs.extra_keys.push(format!("types.{k}"));
                    }
                }
                abs.types = Some((g("launch"), g("build"), g("cache")));
            }
            "metadata" => abs.metadata = Some(v.clone()),
            other => abs.extra_keys.push(other.to_string()),
        }
    }
    Ok(abs)
}

pub const SBOM_EXTS: [&str; 3] = ["cdx.json", "spdx.json", "syft.json"];

/// Names of all layers visible in a layers-dir snapshot (by directory, toml or sbom file).
pub fn layer_names(s: &Snapshot) -> Vec<String> {
    let mut v = Vec::new();
    for k in s.0.keys() {
        if k.contains(&b'/') {
            continue;
        }
        let ks = String::from_utf8_lossy(k).to_string();
        let name = if let Some(n) = ks.strip_suffix(".toml") {
            n.to_string()
        } else if let Some(i) = ks.find(".sbom.") {
            ks[..i].to_string()
        } else {
            ks
        };
        if name != "store" && name != "launch" && name != "build" && !v.contains(&name) {
            v.push(name);
        }
    }
    v.sort();
    v
}

/// raw sub-snapshot of everything that belongs to layer `name`
pub fn layer_raw(s: &Snapshot, name: &str) -> Snapshot {
    let toml = format!("{name}.toml");
    let sbom_prefix = format!("{name}.sbom.");
    s.filter_top(|top| top == name.as_bytes() || top == toml.as_bytes() || top.starts_with(sbom_prefix.as_bytes()))
}

pub fn abstract_layer(s: &Snapshot, name: &str) -> LayerAbs {
    let mut l = LayerAbs::default();
    l.dir = matches!(s.get(name), Some(Node::Dir { .. }));
    if let Some(n) = s.get(&format!("{name}.toml")) {
        l.toml = Some(match n {
            Node::File { data, .. } => parse_layer_toml(data),
            other => Err(format!("not a file: {other:?}")),
        });
    }
    for ext in SBOM_EXTS {
        if let Some(Node::File { data, .. }) = s.get(&format!("{name}.sbom.{ext}")) {
            l.sboms.insert(ext.to_string(), data.clone());
        }
    }
    let sub = s.sub(name);
    for (k, n) in &sub.0 {
        if k.is_empty() {
            continue;
        }
        let top = k.split(|b| *b == b'/').next().unwrap();
        let is_env = [&b"env"[..], b"env.build", b"env.launch"].contains(&top);
        if is_env {
            if let Node::File { data, .. } = n {
                l.env_files.insert(k.clone(), data.clone());
            } else if !n.is_dir() {
                l.env_files.insert(k.clone(), format!("<{n:?}>").into_bytes());
            }
        } else if top == b"exec.d" {
            if let Node::File { data, mode } = n {
                l.execd.insert(k[7..].to_vec(), (mode & 0o111 != 0, data.clone()));
            } else if k.as_slice() != b"exec.d" {
                l.execd.insert(k.clone(), (false, format!("<{n:?}>").into_bytes()));
            }
        } else {
            l.files.0.insert(k.clone(), n.clone());
        }
    }
    l
}

pub fn env_files_of(abs: &AbsEnv) -> BTreeMap<Vec<u8>, Vec<u8>> {
    let mut m = BTreeMap::new();
    for ((s, b, n), v) in abs {
        let mut k = s.dir().into_bytes();
        k.push(b'/');
        k.extend_from_slice(n);
        k.push(b'.');
        k.extend_from_slice(b.suffix().as_bytes());
        m.insert(k, v.clone());
    }
    m
}

/// inverse of `env_files_of` for well-formed layouts (used to rebuild an AbsEnv from disk)
pub fn abs_env_of_files(files: &BTreeMap<Vec<u8>, Vec<u8>>) -> AbsEnv {
    let mut a = AbsEnv::new();
    for (k, v) in files {
        let parts: Vec<&[u8]> = k.split(|b| *b == b'/').collect();
        let (scope, fname) = match parts.as_slice() {
            [b"env", f] => (Sc::All, *f),
            [b"env.build", f] => (Sc::Build, *f),
            [b"env.launch", f] => (Sc::Launch, *f),
            [b"env.launch", p, f] => (Sc::Process(String::from_utf8_lossy(p).to_string()), *f),
            _ => continue,
        };
        let dot = fname.iter().rposition(|c| *c == b'.').filter(|i| *i > 0);
        let (name, beh) = match dot {
            None => (fname.to_vec(), Some(Beh::Override)),
            Some(i) => (fname[..i].to_vec(), Beh::from_suffix(&fname[i + 1..])),
        };
        if let Some(b) = beh {
            a.insert((scope, b, name), v.clone());
        }
    }
    a
}

/// The platform's cache restore between two builds (given by C01's quantifier):
/// cache=true keeps dir + metadata (without types) + SBOM files; launch-only keeps the metadata
/// file only (without types); everything else vanishes. store.toml is kept.
/// The restore exactly as the properties' quantifiers describe it: a launch-only layer keeps its
/// metadata file only.
pub fn restore(s: &Snapshot) -> Snapshot {
    restore_with(s, false)
}

/// The restore as the buildpack spec words it for launch layers: the metadata file AND the layer's
/// SBOM files come back, the directory does not.
pub fn restore_sboms(s: &Snapshot) -> Snapshot {
    restore_with(s, true)
}

fn restore_with(s: &Snapshot, launch_sboms: bool) -> Snapshot {
    let mut out = Snapshot::new();
    if let Some(n) = s.get("store.toml") {
        out.insert("store.toml", n.clone());
    }
    for name in layer_names(s) {
        let Some(Node::File { data, mode }) = s.get(&format!("{name}.toml")) else { continue };
        let Ok(text) = std::str::from_utf8(data) else { continue };
        let Ok(mut table) = toml::from_str::<toml::Table>(text) else { continue };
        let types = table.remove("types");
        let flag = |k: &str| types.as_ref().and_then(|t| t.get(k)).and_then(|b| b.as_bool()).unwrap_or(false);
        let stripped = Node::File { mode: *mode, data: toml::to_string(&table).unwrap().into_bytes() };
        if flag("cache") {
            let keep = layer_raw(s, &name);
            for (k, n) in keep.0 {
                out.0.insert(k, n);
            }
            out.insert(&format!("{name}.toml"), stripped);
        } else if flag("launch") {
            // launch-only layer: the metadata comes back from the previous image, and so do the
            // layer's SBOM files (the lifecycle copies them next to a restored <layer>.toml); the
            // directory does not
            out.insert(&format!("{name}.toml"), stripped);
            if launch_sboms {
                let prefix = format!("{name}.sbom.");
                for (k, n) in s.filter_top(|top| top.starts_with(prefix.as_bytes())).0 {
                    out.0.insert(k, n);
                }
            }
        }
    }
    out
}
