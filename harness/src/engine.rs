//! `bfs_levels`: level-synchronous parallel BFS over a `stateright::Model`.
//!
//! Why not only stateright's own `spawn_bfs`: its workers share work only after a block of 1 500
//! states, so models whose transitions hit the file system (0.1–1 ms each) run on one core.
//! This engine splits every BFS level over all cores (rayon), deduplicates at the level barrier in
//! a deterministic order (frontier index, action index) and keeps parent pointers, so the first
//! counterexample of an `always` property is a shortest one and its path is reproducible.
//! Pure-CPU models are additionally run through `spawn_bfs` and the unique-state counts compared
//! (see `cross_check_with_stateright`).
use rayon::prelude::*;
use stateright::{Checker, Expectation, Model};
use std::collections::HashMap;
use std::fmt::Debug;
use std::hash::{Hash, Hasher};
use std::time::{Duration, Instant};

pub struct BfsOpts {
    pub max_depth: usize,
    pub max_transitions: u64,
    pub max_wall: Duration,
    /// stop expanding after the level in which this many violations have been collected
    pub max_violations: usize,
}

impl Default for BfsOpts {
    fn default() -> Self {
        BfsOpts {
            max_depth: usize::MAX,
            max_transitions: u64::MAX,
            max_wall: Duration::from_secs(3600),
            max_violations: 20,
        }
    }
}

pub struct Counterexample<M: Model> {
    pub property: &'static str,
    pub path: Vec<M::Action>,
    pub state: M::State,
}

pub struct BfsResult<M: Model> {
    pub states: u64,
    pub transitions: u64,
    pub max_depth: usize,
    pub per_level: Vec<u64>,
    pub violations: Vec<Counterexample<M>>,
    pub sometimes_seen: Vec<(&'static str, bool)>,
    pub cap_hit: Option<String>,
    /// one path to a deepest state (for evidence samples)
    pub deepest_path: Vec<M::Action>,
}

pub fn fingerprint<T: Hash>(t: &T) -> u64 {
    // DefaultHasher::new() uses fixed keys => deterministic across runs and processes
    let mut h = std::collections::hash_map::DefaultHasher::new();
    t.hash(&mut h);
    h.finish()
}

pub fn bfs_levels<M>(model: &M, opts: &BfsOpts) -> BfsResult<M>
where
    M: Model + Sync,
    M::State: Hash + Clone + Send + Sync,
    M::Action: Clone + Debug + Send + Sync,
{
    let start = Instant::now();
    let props = model.properties();
    let mut parents: HashMap<u64, Option<(u64, M::Action)>> = HashMap::new();
    let mut violations: Vec<Counterexample<M>> = Vec::new();
    let mut sometimes: Vec<(&'static str, bool)> = props
        .iter()
        .filter(|p| matches!(p.expectation, Expectation::Sometimes))
        .map(|p| (p.name, false))
        .collect();
    let mut frontier: Vec<M::State> = Vec::new();
    let mut per_level = Vec::new();
    let mut transitions = 0u64;
    let mut cap_hit = None;

    let path_of = |parents: &HashMap<u64, Option<(u64, M::Action)>>, mut fp: u64| {
        let mut path = Vec::new();
        while let Some(Some((p, a))) = parents.get(&fp) {
            path.push(a.clone());
            fp = *p;
        }
        path.reverse();
        path
    };

    let check = |state: &M::State,
                     fp: u64,
                     parents: &HashMap<u64, Option<(u64, M::Action)>>,
                     violations: &mut Vec<Counterexample<M>>,
                     sometimes: &mut Vec<(&'static str, bool)>| {
        for p in &props {
            match p.expectation {
                Expectation::Always => {
                    if !(p.condition)(model, state) {
                        violations.push(Counterexample {
                            property: p.name,
                            path: path_of(parents, fp),
                            state: state.clone(),
                        });
                    }
                }
                Expectation::Sometimes => {
                    if (p.condition)(model, state) {
                        for s in sometimes.iter_mut() {
                            if s.0 == p.name {
                                s.1 = true;
                            }
                        }
                    }
                }
                Expectation::Eventually => {}
            }
        }
    };

    for s in model.init_states() {
        let fp = fingerprint(&s);
        if parents.contains_key(&fp) {
            continue;
        }
        parents.insert(fp, None);
        check(&s, fp, &parents, &mut violations, &mut sometimes);
        frontier.push(s);
    }
    per_level.push(frontier.len() as u64);
    let mut depth = 0usize;
    let mut deepest_fp = frontier.first().map(fingerprint).unwrap_or(0);

    while !frontier.is_empty() {
        if depth >= opts.max_depth {
            break;
        }
        if violations.len() >= opts.max_violations {
            break;
        }
        if !violations.is_empty() {
            // BFS: the first level with a violation holds the shortest counterexamples
            break;
        }
        if start.elapsed() > opts.max_wall {
            cap_hit = Some(format!(
                "wall cap {:?} reached before expanding depth {}",
                opts.max_wall, depth
            ));
            break;
        }
        if transitions > opts.max_transitions {
            cap_hit = Some(format!(
                "transition cap {} reached before expanding depth {}",
                opts.max_transitions, depth
            ));
            break;
        }
        // expand the level in parallel, chunk by chunk: successors that are already known are
        // dropped inside the parallel phase and each chunk is merged before the next is expanded,
        // so memory is bounded by (chunk size x branching), not (level size x branching)
        let mut next = Vec::new();
        const CHUNK: usize = 8192;
        let mut offset = 0;
        while offset < frontier.len() {
            let end = (offset + CHUNK).min(frontier.len());
            let known = &parents;
            let expanded: Vec<(u64, Vec<(M::Action, M::State, u64)>)> = frontier[offset..end]
                .par_iter()
                .map(|s| {
                    let mut acts = Vec::new();
                    model.actions(s, &mut acts);
                    let mut out = Vec::new();
                    let mut n = 0u64;
                    for a in acts {
                        if let Some(st) = model.next_state(s, a.clone()) {
                            // same semantics as stateright: successors outside the boundary are dropped
                            if !model.within_boundary(&st) {
                                continue;
                            }
                            n += 1;
                            let fp = fingerprint(&st);
                            if known.contains_key(&fp) {
                                continue;
                            }
                            out.push((a, st, fp));
                        }
                    }
                    (n, out)
                })
                .collect();
            for (i, (n, succs)) in expanded.into_iter().enumerate() {
                let pfp = fingerprint(&frontier[offset + i]);
                transitions += n;
                for (a, st, fp) in succs {
                    if parents.contains_key(&fp) {
                        continue;
                    }
                    parents.insert(fp, Some((pfp, a)));
                    check(&st, fp, &parents, &mut violations, &mut sometimes);
                    next.push(st);
                }
            }
            offset = end;
        }
        depth += 1;
        if !next.is_empty() {
            per_level.push(next.len() as u64);
            deepest_fp = fingerprint(&next[next.len() - 1]);
        }
        frontier = next;
    }
    let max_depth = per_level.len() - 1;
    BfsResult {
        states: parents.len() as u64,
        transitions,
        max_depth,
        per_level,
        deepest_path: path_of(&parents, deepest_fp),
        violations,
        sometimes_seen: sometimes,
        cap_hit,
    }
}

/// Run stateright's own BFS on the same model and return its unique state count (self-test of
/// `bfs_levels`; only meaningful when no `always` property fails, since stateright stops early).
pub fn stateright_unique_states<M>(model: M, max_depth: Option<usize>) -> usize
where
    M: Model + Send + Sync + 'static,
    M::State: Hash + Clone + Debug + PartialEq + Send + Sync + 'static,
    M::Action: Clone + Debug + PartialEq + Send + Sync + 'static,
{
    let mut b = model.checker().threads(num_threads());
    if let Some(d) = max_depth {
        // stateright counts the init state as depth 1
        b = b.target_max_depth(d + 1);
    }
    let c = b.spawn_bfs().join();
    c.unique_state_count()
}

pub fn num_threads() -> usize {
    std::thread::available_parallelism()
        .map(|n| n.get())
        .unwrap_or(4)
}
