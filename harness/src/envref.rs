//! Reference semantics of CNB layer environments (DESIGN Appendix A.3 / A.4): a re-statement of
//! the property, not of the code. Everything works on raw bytes.
use libcnb::Env;
use libcnb::layer_env::{LayerEnv, ModificationBehavior, Scope};
use serde::{Deserialize, Serialize};
use std::collections::BTreeMap;
use std::ffi::OsString;
use std::os::unix::ffi::{OsStrExt, OsStringExt};

#[derive(Clone, Copy, PartialEq, Eq, Hash, PartialOrd, Ord, Debug, Serialize, Deserialize)]
pub enum Beh {
    Append,
    Default,
    Delim,
    Override,
    Prepend,
}

pub const BEHS: [Beh; 5] = [
    Beh::Append,
    Beh::Default,
    Beh::Delim,
    Beh::Override,
    Beh::Prepend,
];

impl Beh {
    pub fn suffix(self) -> &'static str {
        match self {
            Beh::Append => "append",
            Beh::Default => "default",
            Beh::Delim => "delim",
            Beh::Override => "override",
            Beh::Prepend => "prepend",
        }
    }
    pub fn from_suffix(s: &[u8]) -> Option<Beh> {
        BEHS.iter().copied().find(|b| b.suffix().as_bytes() == s)
    }
    pub fn real(self) -> ModificationBehavior {
        match self {
            Beh::Append => ModificationBehavior::Append,
            Beh::Default => ModificationBehavior::Default,
            Beh::Delim => ModificationBehavior::Delimiter,
            Beh::Override => ModificationBehavior::Override,
            Beh::Prepend => ModificationBehavior::Prepend,
        }
    }
}

#[derive(Clone, PartialEq, Eq, Hash, PartialOrd, Ord, Debug, Serialize, Deserialize)]
pub enum Sc {
    All,
    Build,
    Launch,
    Process(String),
}

impl Sc {
    pub fn real(&self) -> Scope {
        match self {
            Sc::All => Scope::All,
            Sc::Build => Scope::Build,
            Sc::Launch => Scope::Launch,
            Sc::Process(p) => Scope::Process(p.clone()),
        }
    }
    /// directory of the scope relative to the layer dir (A.4)
    pub fn dir(&self) -> String {
        match self {
            Sc::All => "env".into(),
            Sc::Build => "env.build".into(),
            Sc::Launch => "env.launch".into(),
            Sc::Process(p) => format!("env.launch/{p}"),
        }
    }
}

pub type Bytes = Vec<u8>;
/// abstract layer environment: (scope, behaviour, name) -> value
pub type AbsEnv = BTreeMap<(Sc, Beh, Bytes), Bytes>;
/// plain environment name -> value
pub type PlainEnv = BTreeMap<Bytes, Bytes>;

pub fn os(b: &[u8]) -> OsString {
    OsString::from_vec(b.to_vec())
}

/// Build the real LayerEnv through the public `insert`, in the map's (sorted) order.
pub fn real_env(abs: &AbsEnv) -> LayerEnv {
    let mut e = LayerEnv::new();
    for ((s, b, n), v) in abs {
        e.insert(s.real(), b.real(), os(n), os(v));
    }
    e
}

pub fn real_plain(p: &PlainEnv) -> Env {
    let mut e = Env::new();
    for (k, v) in p {
        e.insert(os(k), os(v));
    }
    e
}

pub fn plain_of(e: &Env) -> PlainEnv {
    e.iter()
        .map(|(k, v)| (k.as_bytes().to_vec(), v.as_bytes().to_vec()))
        .collect()
}

/// A.3 applyDelta: per name in the order append, default, override, prepend (the lexical order in
/// which the reference lifecycle visits NAME.<suffix> files), with that delta's delimiter.
fn apply_delta(e: &mut PlainEnv, abs: &AbsEnv, scope: &Sc) {
    let mut names: Vec<&Bytes> = abs
        .keys()
        .filter(|(s, _, _)| s == scope)
        .map(|(_, _, n)| n)
        .collect();
    names.sort();
    names.dedup();
    for name in names {
        let get = |b: Beh| abs.get(&(scope.clone(), b, name.clone()));
        let delim = get(Beh::Delim).cloned().unwrap_or_default();
        for b in [Beh::Append, Beh::Default, Beh::Override, Beh::Prepend] {
            let Some(v) = get(b) else { continue };
            let old = e.get(name).cloned();
            match b {
                Beh::Append => {
                    let nv = match old {
                        Some(o) if !o.is_empty() => [o, delim.clone(), v.clone()].concat(),
                        _ => v.clone(),
                    };
                    e.insert(name.clone(), nv);
                }
                Beh::Prepend => {
                    let nv = match old {
                        Some(o) if !o.is_empty() => [v.clone(), delim.clone(), o].concat(),
                        _ => v.clone(),
                    };
                    e.insert(name.clone(), nv);
                }
                Beh::Default => {
                    if old.is_none() {
                        e.insert(name.clone(), v.clone());
                    }
                }
                Beh::Override => {
                    e.insert(name.clone(), v.clone());
                }
                Beh::Delim => {}
            }
        }
    }
}

/// A.3 apply (without implicit layer paths): 'all' first, then the scope-specific delta.
pub fn ref_apply(abs: &AbsEnv, scope: &Sc, start: &PlainEnv) -> PlainEnv {
    let mut e = start.clone();
    apply_delta(&mut e, abs, &Sc::All);
    if *scope != Sc::All {
        apply_delta(&mut e, abs, scope);
    }
    e
}

/// Implicit layer-path entries (A.3, C10): (VAR, sub directory) per scope.
pub fn implicit(scope: &Sc) -> &'static [(&'static str, &'static str)] {
    match scope {
        Sc::Build => &[
            ("PATH", "bin"),
            ("LIBRARY_PATH", "lib"),
            ("LD_LIBRARY_PATH", "lib"),
            ("CPATH", "include"),
            ("PKG_CONFIG_PATH", "pkgconfig"),
        ],
        Sc::Launch => &[("PATH", "bin"), ("LD_LIBRARY_PATH", "lib")],
        _ => &[],
    }
}
