#!/usr/bin/env python3
"""Regenerates MANIFEST.json from checks/manifest_table.json (one entry per claimed property)."""
import json, os
V = os.path.dirname(os.path.dirname(os.path.abspath(__file__)))
table = json.load(open(os.path.join(V, "checks", "manifest_table.json")))
props = [json.loads(l)["id"] for l in open(os.path.join(V, "properties.jsonl"))]
checks, na = [], []
for pid in props:
    t = table["checks"].get(pid)
    if not t:
        na.append({"property_id": pid, "reason": table["not_applicable"].get(pid, "check not built yet in this round; planned as described in DESIGN.md section 3")})
        continue
    checks.append({
        "property_id": pid,
        "quick_cmd": f"bin/check {pid} --tier quick",
        "thorough_cmd": f"bin/check {pid} --tier thorough",
        "evidence_file": f"/verif/evidence/{pid}.json",
        "replay_cmd_template": f"bin/check {pid} --replay {{path}}",
        "engine": t["engine"],
        "level_claimed": {"category": t["level"], "text": t["text"], "design_ref": f"DESIGN.md section 3, {pid}"},
        "level_note": t["note"],
        "technique": t["technique"],
    })
m = {
    "version": 1,
    "setup_cmd": "bin/setup",
    "hooks": table["hooks"],
    "engines": table["engines"],
    "checks": checks,
    "not_applicable": na,
    "notes": table.get("notes", ""),
}
json.dump(m, open(os.path.join(V, "MANIFEST.json"), "w"), indent=1)
print(f"{len(checks)} checks, {len(na)} not claimed")
